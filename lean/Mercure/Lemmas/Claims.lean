import Mercure.Model.Claims
import Mercure.Lemmas.Json
/-
  Lemmas about Mercure.Model.Claims — the generic JSON parser reads back the compact serialiser, and the
  hub's decoding of what an issuer writes. (core Lean only: no Mathlib)
-/
namespace Mercure.ClaimsJson
open Mercure

/-! ### the store rules: small facts -/

theorem storeStrings_wrong_kind (back : List Str) (v : JVal)
    (h : match v with | .null => False | .arr _ => False | _ => True) : storeStrings back v = none := by
  cases v <;> simp_all [storeStrings]

theorem storeElems_bad (pre : List Str) (x : JVal) (post : List JVal)
    (hx : match x with | .str _ => False | .null => False | _ => True) :
    ∀ back, storeElems (pre.map JVal.str ++ x :: post) back = none := by
  induction pre with
  | nil => intro back; cases x <;> simp_all [storeElems]
  | cons a as ih => intro back; simp [storeElems, ih]

theorem storeStrings_bad_element (back : List Str) (pre : List Str) (x : JVal) (post : List JVal)
    (hx : match x with | .str _ => False | .null => False | _ => True) :
    storeStrings back (.arr (pre.map JVal.str ++ x :: post)) = none := by
  have h := storeElems_bad pre x post hx back
  cases hl : pre.map JVal.str ++ x :: post with
  | nil => simp at hl
  | cons y ys => rw [hl] at h; simp [storeStrings, h]

theorem storeElems_strs (l : List Str) : ∀ back, storeElems (l.map JVal.str) back = some l := by
  induction l with
  | nil => intro back; simp [storeElems]
  | cons a as ih => intro back; simp [storeElems, ih]

theorem storeStrings_strs (back : List Str) (l : List Str) (hl : l ≠ []) :
    (storeStrings back (.arr (l.map JVal.str))).map (·.1) = some (some l) := by
  cases l with
  | nil => exact absurd rfl hl
  | cons a as =>
    have h := storeElems_strs (a :: as) back
    simp only [List.map_cons] at h ⊢
    simp [storeStrings, h]

theorem storeMembersC_unknown (k : Str) (v : JVal) (rest : List (Str × JVal)) (c : C)
    (h : selectField cFields k = none) : storeMembersC ((k, v) :: rest) c = storeMembersC rest c := by
  simp [storeMembersC, h]

/-! ### string literals -/

/-- what `quote` writes for one character -/
def qc (c : Char) : Str :=
  if c == '"' then ['\\', '"'] else if c == '\\' then ['\\', '\\']
  else if c.toNat < 32 then ['\\', 'u'] ++ hex4 c.toNat else [c]

theorem quote_eq (s : Str) : quote s = '"' :: (s.flatMap qc ++ ['"']) := rfl

theorem hex4_eq (n : Nat) : hex4 n = Json.hex4 n := rfl

theorem unquoteBody_qc (fuel : Nat) (c : Char) (tail : Str) :
    Json.unquoteBody (fuel + 1) (qc c ++ tail) = (Json.unquoteBody fuel tail).map (fun (v, r) => (c :: v, r)) := by
  unfold qc
  split
  · rename_i h; simp at h; subst h; simp [Json.unquoteBody]
  split
  · rename_i h; simp at h; subst h; simp [Json.unquoteBody]
  split
  · rename_i h
    have := Json.unquoteBody_u fuel c.toNat tail (.inl h)
    rw [Char.ofNat_toNat] at this
    simpa [hex4_eq] using this
  · rename_i h1 h2 h3
    simp at h1 h2 h3
    exact Json.unquoteBody_lit fuel c tail h1 h2 (by omega)

theorem length_qc_pos (c : Char) : 1 ≤ (qc c).length := by
  unfold qc
  repeat' split
  all_goals simp [hex4]

theorem length_le_flatMap_qc (s : Str) : s.length ≤ (s.flatMap qc).length := by
  induction s with
  | nil => simp
  | cons c cs ih => simp [List.flatMap_cons]; have := length_qc_pos c; simp at ih; omega

theorem unquoteBody_flatMap_qc (s : Str) : ∀ (fuel : Nat) (rest : Str), s.length + 1 ≤ fuel →
    Json.unquoteBody fuel (s.flatMap qc ++ '"' :: rest) = some (s, rest) := by
  induction s with
  | nil =>
    intro fuel rest h
    obtain ⟨f, rfl⟩ : ∃ f, fuel = f + 1 := ⟨fuel - 1, by omega⟩
    simp [Json.unquoteBody]
  | cons c cs ih =>
    intro fuel rest h
    obtain ⟨f, rfl⟩ : ∃ f, fuel = f + 1 := ⟨fuel - 1, by omega⟩
    simp only [List.flatMap_cons, List.append_assoc]
    rw [unquoteBody_qc, ih f rest (by simpa using h)]
    rfl

/-- a string literal written by `quote` decodes to the string it was written from, whatever follows -/
theorem parseStr_quote (s rest : Str) : Json.parseStr (quote s ++ rest) = some (s, rest) := by
  simp only [quote_eq, List.cons_append, Json.parseStr, List.append_assoc, List.nil_append]
  apply unquoteBody_flatMap_qc
  have := length_le_flatMap_qc s
  simp only [List.length_append, List.length_cons]; omega

/-! ### numerals -/

/-- what follows a numeral does not extend it -/
def okRest (rest : Str) : Prop :=
  rest.head?.all (fun c => !(c.isDigit || c == '.' || c == 'e' || c == 'E' || c == '+' || c == '-')) = true

/-- `raw` is a numeral the parser reads back as it is written, in every context that does not extend it -/
def NumOK (raw : Str) : Prop := ∀ rest, okRest rest → parseNum (raw ++ rest) = some (raw, rest)

theorem okRest_nil : okRest [] := by simp [okRest]
theorem okRest_comma (r : Str) : okRest (',' :: r) := by simp [okRest]
theorem okRest_rbracket (r : Str) : okRest (']' :: r) := by simp [okRest]
theorem okRest_rbrace (r : Str) : okRest ('}' :: r) := by simp [okRest]

/-- `parseNum` without a leading minus sign starts with a digit, or fails -/
theorem parseNum_nondigit (c : Char) (r : Str) (h1 : c ≠ '-') (h2 : c.isDigit = false) :
    parseNum (c :: r) = none := by
  unfold parseNum
  split
  rename_i heq
  split at heq
  · rename_i heq2; simp at heq2; exact absurd heq2.1 h1
  · cases heq
    simp [h2]

theorem parseNum_head (s a b : Str) (h : parseNum s = some (a, b)) :
    ∃ c r, s = c :: r ∧ (c = '-' ∨ c.isDigit = true) := by
  cases s with
  | nil => simp [parseNum] at h
  | cons c r =>
    refine ⟨c, r, rfl, ?_⟩
    by_cases h1 : c = '-'
    · exact .inl h1
    by_cases h2 : c.isDigit = true
    · exact .inr h2
    · rw [parseNum_nondigit c r h1 (by simpa using h2)] at h
      cases h

theorem NumOK_head (raw : Str) (h : NumOK raw) : ∃ c r, raw = c :: r ∧ (c = '-' ∨ c.isDigit = true) := by
  have := h [] okRest_nil
  rw [List.append_nil] at this
  exact parseNum_head _ _ _ this

theorem isDigit_ne_minus (c : Char) (h : c.isDigit = true) : c ≠ '-' := by
  rintro rfl; revert h; decide

theorem okRest_cons (x : Char) (xs : Str) (h : okRest (x :: xs)) :
    x.isDigit = false ∧ x ≠ '.' ∧ x ≠ 'e' ∧ x ≠ 'E' := by
  simp [okRest] at h
  simp [h]

theorem numOK_toDigits (n : Nat) : NumOK (Nat.toDigits 10 n) := by
  intro rest hr
  have hd : ∀ c ∈ Nat.toDigits 10 n, c.isDigit = true :=
    fun c hc => Nat.isDigit_of_mem_toDigits (by decide) (by decide) hc
  have hr' : ∀ c, rest.head? = some c → c.isDigit = false := by
    intro c hc
    cases rest with
    | nil => simp at hc
    | cons x xs => simp at hc; subst hc; exact (okRest_cons _ _ hr).1
  obtain ⟨h1, h2⟩ := Json.takeWhile_digits_append _ _ hd hr'
  have hne : Nat.toDigits 10 n ≠ [] := Nat.toDigits_ne_nil
  have hlead : ((Nat.toDigits 10 n).length > 1 && (Nat.toDigits 10 n).head? == some '0') = false := by
    cases n with
    | zero => simp
    | succ m =>
      have := Json.head_toDigits_ne_zero (m + 1) (by omega)
      simp [this]
  unfold parseNum
  split
  rename_i heq
  split at heq
  · rename_i heq2
    exfalso
    cases hds : Nat.toDigits 10 n with
    | nil => exact hne hds
    | cons d tl =>
      rw [hds] at heq2 hd
      simp at heq2
      exact isDigit_ne_minus d (hd d (by simp)) heq2.1
  · cases heq
    simp only [h1, h2]
    cases rest with
    | nil => simp [hne, hlead]
    | cons x xs =>
      obtain ⟨_, hx1, hx2, hx3⟩ := okRest_cons x xs hr
      simp [hne, hlead]
      split
      · rename_i heq
        split at heq
        · rename_i heq2; simp at heq2; exact absurd heq2.1 hx1
        · cases heq
      · rename_i frac r2 heq
        split at heq
        · rename_i heq2; simp at heq2; exact absurd heq2.1 hx1
        · cases heq
          simp [hx2, hx3]

theorem truncSeconds_toDigits (n : Nat) : truncSeconds (Nat.toDigits 10 n) = (n, false) := by
  have hd : ∀ c ∈ Nat.toDigits 10 n, c.isDigit = true :=
    fun c hc => Nat.isDigit_of_mem_toDigits (by decide) (by decide) hc
  have h12 := Json.takeWhile_digits_append (Nat.toDigits 10 n) [] hd (by simp)
  rw [List.append_nil] at h12
  obtain ⟨h1, h2⟩ := h12
  have hne : Nat.toDigits 10 n ≠ [] := Nat.toDigits_ne_nil
  unfold truncSeconds
  split
  rename_i heq
  split at heq
  · rename_i heq2
    exfalso
    cases hds : Nat.toDigits 10 n with
    | nil => exact hne hds
    | cons d tl =>
      rw [hds] at heq2 hd
      simp at heq2
      exact isDigit_ne_minus d (hd d (by simp)) heq2.1
  · cases heq
    simp [h1, h2, Nat.ofDigitChars_ten_toDigits]


/-! ### the parser reads back the serialiser -/

mutual
/-- every number inside the value is a numeral the parser reads back as written -/
def WellFormedNums : JVal → Prop
  | .num raw => NumOK raw
  | .arr xs => WellFormedList xs
  | .obj kvs => WellFormedMembers kvs
  | _ => True
def WellFormedList : List JVal → Prop
  | [] => True
  | x :: xs => WellFormedNums x ∧ WellFormedList xs
def WellFormedMembers : List (Str × JVal) → Prop
  | [] => True
  | (_, v) :: kvs => WellFormedNums v ∧ WellFormedMembers kvs
end

mutual
/-- fuel that suffices to parse the rendering of a value -/
def sz : JVal → Nat
  | .arr xs => 1 + szL xs
  | .obj kvs => 1 + szM kvs
  | _ => 1
def szL : List JVal → Nat
  | [] => 0
  | x :: xs => 1 + sz x + szL xs
def szM : List (Str × JVal) → Nat
  | [] => 0
  | (_, v) :: kvs => 1 + sz v + szM kvs
end

theorem sz_pos (v : JVal) : 1 ≤ sz v := by
  cases v <;> simp [sz]

theorem skipWs_cons (c : Char) (r : Str) (h : isWs c = false) : skipWs (c :: r) = c :: r := by
  simp [skipWs, h]

theorem isDigit_not_ws (c : Char) (h : c.isDigit = true) : isWs c = false := by
  simp [isWs]
  refine ⟨⟨⟨?_, ?_⟩, ?_⟩, ?_⟩ <;> (rintro rfl; revert h; decide)

/-- the first character of a rendered value: not white space, not a closing bracket -/
def StartOK (s : Str) : Prop := ∃ c t, s = c :: t ∧ isWs c = false ∧ c ≠ ']' ∧ c ≠ '}'

theorem startOK_render (v : JVal) (h : WellFormedNums v) : StartOK (render v) := by
  cases v with
  | null => exact ⟨'n', "ull".toList, by decide, by decide, by decide, by decide⟩
  | bool b => cases b
              · exact ⟨'f', "alse".toList, by decide, by decide, by decide, by decide⟩
              · exact ⟨'t', "rue".toList, by decide, by decide, by decide, by decide⟩
  | num raw =>
    obtain ⟨c, r, rfl, hc⟩ := NumOK_head raw (by simpa [WellFormedNums] using h)
    refine ⟨c, r, by simp [render], ?_⟩
    rcases hc with rfl | hc
    · decide
    · refine ⟨isDigit_not_ws c hc, ?_, ?_⟩ <;> (rintro rfl; revert hc; decide)
  | str s => exact ⟨'"', _, by simp [render, quote_eq]; rfl, by decide, by decide, by decide⟩
  | arr xs => exact ⟨'[', _, by simp [render]; rfl, by decide, by decide, by decide⟩
  | obj kvs => exact ⟨'{', _, by simp [render]; rfl, by decide, by decide, by decide⟩

theorem parseVal_num (f : Nat) (raw rest : Str) (h : NumOK raw) (hr : okRest rest) :
    parseVal (f + 1) (raw ++ rest) = some (.num raw, rest) := by
  obtain ⟨c, r, rfl, hc⟩ := NumOK_head raw h
  have hp := h rest hr
  have hws : isWs c = false := by
    rcases hc with rfl | hc
    · decide
    · exact isDigit_not_ws c hc
  rw [parseVal]
  simp only [List.cons_append] at hp ⊢
  rw [skipWs_cons _ _ hws]
  split
  all_goals first
    | (rename_i heq; simp only [List.cons.injEq] at heq; exfalso
       obtain ⟨rfl, _⟩ := heq
       rcases hc with hc | hc <;> revert hc <;> decide)
    | skip
  rw [hp]; rfl

theorem parseVal_null (f : Nat) (rest : Str) : parseVal (f + 1) ("null".toList ++ rest) = some (.null, rest) := by
  rw [parseVal]
  have : "null".toList ++ rest = 'n' :: ("ull".toList ++ rest) := rfl
  rw [this, skipWs_cons _ _ (by decide)]
  simp only [Json.expect_append]; rfl

theorem parseVal_true (f : Nat) (rest : Str) : parseVal (f + 1) ("true".toList ++ rest) = some (.bool true, rest) := by
  rw [parseVal]
  have : "true".toList ++ rest = 't' :: ("rue".toList ++ rest) := rfl
  rw [this, skipWs_cons _ _ (by decide)]
  simp only [Json.expect_append]; rfl

theorem parseVal_false (f : Nat) (rest : Str) : parseVal (f + 1) ("false".toList ++ rest) = some (.bool false, rest) := by
  rw [parseVal]
  have : "false".toList ++ rest = 'f' :: ("alse".toList ++ rest) := rfl
  rw [this, skipWs_cons _ _ (by decide)]
  simp only [Json.expect_append]; rfl

theorem parseVal_str (f : Nat) (s rest : Str) : parseVal (f + 1) (quote s ++ rest) = some (.str s, rest) := by
  have hp := parseStr_quote s rest
  rw [parseVal]
  rw [quote_eq] at hp ⊢
  simp only [List.cons_append] at hp ⊢
  rw [skipWs_cons _ _ (by decide)]
  simp only [hp]; rfl

theorem startOK_append {s : Str} (h : StartOK s) (t : Str) :
    ∃ c u, s ++ t = c :: u ∧ isWs c = false ∧ c ≠ ']' ∧ c ≠ '}' := by
  obtain ⟨c, u, rfl, h1, h2, h3⟩ := h
  exact ⟨c, u ++ t, rfl, h1, h2, h3⟩

theorem renderList_cons_start (x : JVal) (xs : List JVal) (h : WellFormedNums x) :
    StartOK (renderList (x :: xs)) := by
  obtain ⟨c, u, hc, h1, h2, h3⟩ := startOK_render x h
  cases xs with
  | nil => exact ⟨c, u, by simp [renderList, hc], h1, h2, h3⟩
  | cons y ys => exact ⟨c, _, by simp [renderList, hc]; rfl, h1, h2, h3⟩

mutual
theorem parseVal_render : (v : JVal) → WellFormedNums v → ∀ (fuel : Nat) (rest : Str), sz v ≤ fuel → okRest rest →
    parseVal fuel (render v ++ rest) = some (v, rest)
  | .null, _, fuel, rest, hf, _ => by
    obtain ⟨f, rfl⟩ : ∃ f, fuel = f + 1 := ⟨fuel - 1, by simp [sz] at hf; omega⟩
    exact parseVal_null f rest
  | .bool true, _, fuel, rest, hf, _ => by
    obtain ⟨f, rfl⟩ : ∃ f, fuel = f + 1 := ⟨fuel - 1, by simp [sz] at hf; omega⟩
    exact parseVal_true f rest
  | .bool false, _, fuel, rest, hf, _ => by
    obtain ⟨f, rfl⟩ : ∃ f, fuel = f + 1 := ⟨fuel - 1, by simp [sz] at hf; omega⟩
    exact parseVal_false f rest
  | .num raw, hw, fuel, rest, hf, hr => by
    obtain ⟨f, rfl⟩ : ∃ f, fuel = f + 1 := ⟨fuel - 1, by simp [sz] at hf; omega⟩
    exact parseVal_num f raw rest (by simpa [WellFormedNums] using hw) hr
  | .str s, _, fuel, rest, hf, _ => by
    obtain ⟨f, rfl⟩ : ∃ f, fuel = f + 1 := ⟨fuel - 1, by simp [sz] at hf; omega⟩
    exact parseVal_str f s rest
  | .arr [], _, fuel, rest, hf, _ => by
    obtain ⟨f, rfl⟩ : ∃ f, fuel = f + 1 := ⟨fuel - 1, by simp [sz] at hf; omega⟩
    rw [parseVal]
    simp only [render, renderList, List.cons_append, List.nil_append]
    rw [skipWs_cons _ _ (by decide)]
    simp only []
    rw [skipWs_cons _ _ (by decide)]
    rfl
  | .arr (x :: xs), hw, fuel, rest, hf, _ => by
    obtain ⟨f, rfl⟩ : ∃ f, fuel = f + 1 := ⟨fuel - 1, by simp [sz] at hf; omega⟩
    have hw' : WellFormedList (x :: xs) := by simpa [WellFormedNums] using hw
    have hx : WellFormedNums x := by simp [WellFormedList] at hw'; exact hw'.1
    have ih := parseElems_render (x :: xs) (by simp) hw' f rest [] (by simp [sz] at hf; omega)
    obtain ⟨c, u, hcu, h1, h2, _⟩ := startOK_append (renderList_cons_start x xs hx) (']' :: rest)
    rw [parseVal]
    simp only [render, List.cons_append, List.append_assoc, List.nil_append]
    rw [skipWs_cons _ _ (by decide)]
    simp only []
    rw [hcu, skipWs_cons _ _ h1]
    split
    · rename_i heq; simp at heq; exact absurd heq.1 h2
    · rw [← hcu, ih]; rfl
  | .obj [], _, fuel, rest, hf, _ => by
    obtain ⟨f, rfl⟩ : ∃ f, fuel = f + 1 := ⟨fuel - 1, by simp [sz] at hf; omega⟩
    rw [parseVal]
    simp only [render, renderMembers, List.cons_append, List.nil_append]
    rw [skipWs_cons _ _ (by decide)]
    simp only []
    rw [skipWs_cons _ _ (by decide)]
    rfl
  | .obj ((k, v) :: kvs), hw, fuel, rest, hf, _ => by
    obtain ⟨f, rfl⟩ : ∃ f, fuel = f + 1 := ⟨fuel - 1, by simp [sz] at hf; omega⟩
    have hw' : WellFormedMembers ((k, v) :: kvs) := by simpa [WellFormedNums] using hw
    have ih := parseMembers_render ((k, v) :: kvs) (by simp) hw' f rest [] (by simp [sz] at hf; omega)
    have hcu : ∃ u, renderMembers ((k, v) :: kvs) ++ '}' :: rest = '"' :: u := by
      cases kvs <;> simp [renderMembers, quote_eq]
    obtain ⟨u, hcu⟩ := hcu
    rw [parseVal]
    simp only [render, List.cons_append, List.append_assoc, List.nil_append]
    rw [skipWs_cons _ _ (by decide)]
    simp only []
    rw [hcu, skipWs_cons _ _ (by decide)]
    split
    · rename_i heq; simp at heq
    · rw [← hcu, ih]; rfl
theorem parseElems_render : (xs : List JVal) → xs ≠ [] → WellFormedList xs →
    ∀ (fuel : Nat) (rest : Str) (acc : List JVal), szL xs ≤ fuel →
    parseElems fuel (renderList xs ++ ']' :: rest) acc = some (.arr (acc.reverse ++ xs), rest)
  | [], h, _, _, _, _, _ => absurd rfl h
  | [x], _, hw, fuel, rest, acc, hf => by
    obtain ⟨f, rfl⟩ : ∃ f, fuel = f + 1 := ⟨fuel - 1, by simp [szL] at hf; omega⟩
    have hx : WellFormedNums x := by simp [WellFormedList] at hw; exact hw
    have ih := parseVal_render x hx f (']' :: rest) (by simp [szL] at hf; omega) (okRest_rbracket rest)
    rw [parseElems]
    simp only [renderList]
    rw [ih]
    simp only []
    rw [skipWs_cons _ _ (by decide)]
    simp
  | x :: y :: tl, _, hw, fuel, rest, acc, hf => by
    obtain ⟨f, rfl⟩ : ∃ f, fuel = f + 1 := ⟨fuel - 1, by simp [szL] at hf; omega⟩
    have hx : WellFormedNums x := by simp [WellFormedList] at hw; exact hw.1
    have hw' : WellFormedList (y :: tl) := by
      simp only [WellFormedList] at hw ⊢; exact hw.2
    have ih := parseVal_render x hx f (',' :: (renderList (y :: tl) ++ ']' :: rest))
      (by simp [szL] at hf; omega) (okRest_comma _)
    have ih2 := parseElems_render (y :: tl) (by simp) hw' f rest (x :: acc) (by simp [szL] at hf ⊢; omega)
    rw [parseElems]
    simp only [renderList, List.append_assoc, List.cons_append]
    rw [ih]
    simp only []
    rw [skipWs_cons _ _ (by decide)]
    simp only []
    rw [ih2]
    simp
theorem parseMembers_render : (kvs : List (Str × JVal)) → kvs ≠ [] → WellFormedMembers kvs →
    ∀ (fuel : Nat) (rest : Str) (acc : List (Str × JVal)), szM kvs ≤ fuel →
    parseMembers fuel (renderMembers kvs ++ '}' :: rest) acc = some (.obj (acc.reverse ++ kvs), rest)
  | [], h, _, _, _, _, _ => absurd rfl h
  | [(k, v)], _, hw, fuel, rest, acc, hf => by
    obtain ⟨f, rfl⟩ : ∃ f, fuel = f + 1 := ⟨fuel - 1, by simp [szM] at hf; omega⟩
    have hx : WellFormedNums v := by simp [WellFormedMembers] at hw; exact hw
    have ih := parseVal_render v hx f ('}' :: rest) (by simp [szM] at hf; omega) (okRest_rbrace rest)
    have hk : skipWs (quote k ++ ':' :: (render v ++ '}' :: rest)) = quote k ++ ':' :: (render v ++ '}' :: rest) := by
      rw [quote_eq]; exact skipWs_cons _ _ (by decide)
    rw [parseMembers]
    simp only [renderMembers, List.append_assoc, List.cons_append]
    rw [hk, parseStr_quote]
    simp only []
    rw [skipWs_cons _ _ (by decide)]
    simp only []
    rw [ih]
    simp only []
    rw [skipWs_cons _ _ (by decide)]
    simp
  | (k, v) :: kv2 :: tl, _, hw, fuel, rest, acc, hf => by
    obtain ⟨f, rfl⟩ : ∃ f, fuel = f + 1 := ⟨fuel - 1, by simp [szM] at hf; omega⟩
    have hx : WellFormedNums v := by simp [WellFormedMembers] at hw; exact hw.1
    have hw' : WellFormedMembers (kv2 :: tl) := by
      simp only [WellFormedMembers] at hw ⊢; exact hw.2
    have ih := parseVal_render v hx f (',' :: (renderMembers (kv2 :: tl) ++ '}' :: rest))
      (by simp [szM] at hf; omega) (okRest_comma _)
    have ih2 := parseMembers_render (kv2 :: tl) (by simp) hw' f rest ((k, v) :: acc) (by simp [szM] at hf ⊢; omega)
    have hk : ∀ t, skipWs (quote k ++ t) = quote k ++ t := by
      intro t; rw [quote_eq]; exact skipWs_cons _ _ (by decide)
    rw [parseMembers]
    simp only [renderMembers, List.append_assoc, List.cons_append]
    rw [hk, parseStr_quote]
    simp only []
    rw [skipWs_cons _ _ (by decide)]
    simp only []
    rw [ih]
    simp only []
    rw [skipWs_cons _ _ (by decide)]
    simp only []
    rw [ih2]
    simp
end

mutual
theorem sz_le : (v : JVal) → sz v ≤ 2 * (render v).length + 1
  | .null => by simp [sz]
  | .bool _ => by simp [sz]
  | .num _ => by simp [sz]
  | .str _ => by simp [sz]
  | .arr xs => by
    have := szL_le xs
    simp [sz, render] at this ⊢; omega
  | .obj kvs => by
    have := szM_le kvs
    simp [sz, render] at this ⊢; omega
theorem szL_le : (xs : List JVal) → szL xs ≤ 2 * (renderList xs).length + 2
  | [] => by simp [szL]
  | [x] => by
    have := sz_le x
    simp [szL, renderList] at this ⊢; omega
  | x :: y :: tl => by
    have := sz_le x
    have := szL_le (y :: tl)
    simp [szL, renderList] at *; omega
theorem szM_le : (kvs : List (Str × JVal)) → szM kvs ≤ 2 * (renderMembers kvs).length + 2
  | [] => by simp [szM]
  | [(k, v)] => by
    have := sz_le v
    simp [szM, renderMembers] at this ⊢; omega
  | (k, v) :: kv2 :: tl => by
    have := sz_le v
    have := szM_le (kv2 :: tl)
    simp [szM, renderMembers] at *; omega
end

/-- **The generic parser reads back the compact serialiser.** -/
theorem parseJSON_render (v : JVal) (h : WellFormedNums v) : parseJSON (render v) = some v := by
  have := parseVal_render v h (2 * (render v).length + 2) [] (by have := sz_le v; omega) okRest_nil
  rw [List.append_nil] at this
  simp [parseJSON, this, skipWs]


/-! ### what an issuer writes, as a value -/
def optV : Option (List Str) → JVal
  | none => .null
  | some l => .arr (l.map JVal.str)

def mV (p s : Option (List Str)) : JVal :=
  .obj [("publish".toList, optV p), ("subscribe".toList, optV s)]
theorem render_optV (o : Option (List Str)) : render (optV o) = optArray o := by
  cases o <;> simp [optV, optArray, render, strArray]

theorem q1 : quote "publish".toList = "\"publish\"".toList := by decide +kernel
theorem q1' : quote "subscribe".toList = "\"subscribe\"".toList := by decide +kernel
theorem q2 : quote "https://mercure.rocks/".toList = "\"https://mercure.rocks/\"".toList := by decide +kernel

theorem renderMembers_two (k1 k2 : Str) (v1 v2 : JVal) :
    renderMembers [(k1, v1), (k2, v2)] = quote k1 ++ ':' :: (render v1 ++ ',' :: (quote k2 ++ ':' :: render v2)) := by
  simp [renderMembers]

theorem render_mV (p s : Option (List Str)) : render (mV p s) = encodeM p s := by
  unfold mV encodeM
  rw [render, renderMembers_two, q1, q1', render_optV, render_optV]
  have l1 : "{\"publish\":".toList = '{' :: ("\"publish\"".toList ++ [':']) := by decide +kernel
  have l2 : ",\"subscribe\":".toList = ',' :: ("\"subscribe\"".toList ++ [':']) := by decide +kernel
  rw [l1, l2]
  simp only [List.append_assoc, List.cons_append, List.nil_append]
def encodeV (p s : Option (List Str)) (ns : Option (Option (List Str) × Option (List Str))) (e : Option Nat) : JVal :=
  .obj (("mercure".toList, mV p s) ::
    ((match ns with
      | none => []
      | some (np, nsub) => [("https://mercure.rocks/".toList, mV np nsub)]) ++
     (match e with
      | none => []
      | some e => [("exp".toList, JVal.num (Nat.toDigits 10 e))])))

theorem renderMembers_one (k : Str) (v : JVal) : renderMembers [(k, v)] = quote k ++ ':' :: render v := by
  simp [renderMembers]

theorem renderMembers_cons_cons (k : Str) (v : JVal) (kv : Str × JVal) (tl : List (Str × JVal)) :
    renderMembers ((k, v) :: kv :: tl) = quote k ++ ':' :: (render v ++ ',' :: renderMembers (kv :: tl)) := by
  simp [renderMembers]

theorem q3 : quote "mercure".toList = "\"mercure\"".toList := by decide +kernel
theorem q4 : quote "exp".toList = "\"exp\"".toList := by decide +kernel
theorem l3 : "{\"mercure\":".toList = '{' :: ("\"mercure\"".toList ++ [':']) := by decide +kernel
theorem l4 : ",\"https://mercure.rocks/\":".toList = ',' :: ("\"https://mercure.rocks/\"".toList ++ [':']) := by
  decide +kernel
theorem l5 : ",\"exp\":".toList = ',' :: ("\"exp\"".toList ++ [':']) := by decide +kernel

theorem render_num (raw : Str) : render (.num raw) = raw := by simp [render]

theorem render_encodeV (p s : Option (List Str)) (ns : Option (Option (List Str) × Option (List Str))) (e : Option Nat) :
    render (encodeV p s ns e) = encode p s ns e := by
  unfold encodeV encode
  rw [render, l3]
  rcases ns with _ | ⟨np, nsub⟩ <;> rcases e with _ | e <;>
    simp only [List.append_nil, List.nil_append, List.cons_append, renderMembers_one, renderMembers_cons_cons,
      render_mV, q2, q3, q4, l4, l5, render_num, List.append_assoc]

theorem wf_strs (l : List Str) : WellFormedList (l.map JVal.str) := by
  induction l with
  | nil => simp [WellFormedList]
  | cons a as ih => simp [WellFormedList, WellFormedNums, ih]

theorem wf_optV (o : Option (List Str)) : WellFormedNums (optV o) := by
  cases o with
  | none => simp [optV, WellFormedNums]
  | some l => simp [optV, WellFormedNums, wf_strs]

theorem wf_mV (p s : Option (List Str)) : WellFormedNums (mV p s) := by
  simp [mV, WellFormedNums, WellFormedMembers, wf_optV]

theorem wf_encodeV (p s : Option (List Str)) (ns : Option (Option (List Str) × Option (List Str))) (e : Option Nat) :
    WellFormedNums (encodeV p s ns e) := by
  rcases ns with _ | ⟨np, nsub⟩ <;> rcases e with _ | e <;>
    simp [encodeV, WellFormedNums, WellFormedMembers, wf_mV, numOK_toDigits]

/-! ### storing what an issuer writes -/

theorem storeStrings_optV (back : List Str) (o : Option (List Str)) :
    ∃ b, storeStrings back (optV o) = some (o, b) := by
  cases o with
  | none => exact ⟨[], by simp [optV, storeStrings]⟩
  | some l =>
    cases l with
    | nil => exact ⟨[], by simp [optV, storeStrings]⟩
    | cons a as =>
      have h := storeElems_strs (a :: as) back
      simp only [List.map_cons] at h
      exact ⟨_, by simp only [optV, List.map_cons, storeStrings, h]; rfl⟩

theorem selM_publish : selectField mFields "publish".toList = some "publish".toList := by decide +kernel
theorem selM_subscribe : selectField mFields "subscribe".toList = some "subscribe".toList := by decide +kernel
theorem selC_mercure : selectField cFields "mercure".toList = some "mercure".toList := by decide +kernel
theorem selC_ns : selectField cFields "https://mercure.rocks/".toList = some "https://mercure.rocks/".toList := by
  decide +kernel
theorem selC_exp : selectField cFields "exp".toList = some "exp".toList := by decide +kernel
theorem ne_sub_pub : ("subscribe".toList == "publish".toList) = false := by decide +kernel
theorem ne_ns_mercure : ("https://mercure.rocks/".toList == "mercure".toList) = false := by decide +kernel
theorem ne_exp_mercure : ("exp".toList == "mercure".toList) = false := by decide +kernel
theorem ne_exp_ns : ("exp".toList == "https://mercure.rocks/".toList) = false := by decide +kernel

theorem storeMembersM_mV (p s : Option (List Str)) (m : M) :
    ∃ b1 b2, storeMembersM [("publish".toList, optV p), ("subscribe".toList, optV s)] m =
      some { publish := p, subscribe := s, payload := m.payload, pubBack := b1, subBack := b2 } := by
  obtain ⟨b1, h1⟩ := storeStrings_optV m.pubBack p
  obtain ⟨b2, h2⟩ := storeStrings_optV m.subBack s
  refine ⟨b1, b2, ?_⟩
  simp only [storeMembersM, selM_publish, selM_subscribe, ne_sub_pub, h1, h2, beq_self_eq_true, if_true,
    Bool.false_eq_true, if_false]

theorem toClaim_mV (p s : Option (List Str)) (m : M) (hm : m.payload = none) :
    (storeMembersM [("publish".toList, optV p), ("subscribe".toList, optV s)] m).map M.toClaim =
      some { publish := p, subscribe := s, payload := [] } := by
  obtain ⟨b1, b2, h⟩ := storeMembersM_mV p s m
  rw [h]
  simp only [Option.map_some, M.toClaim, hm]

theorem storeC_mercure (p s : Option (List Str)) (rest : List (Str × JVal)) (c : C) :
    ∃ b1 b2, storeMembersC (("mercure".toList, mV p s) :: rest) c =
      storeMembersC rest { c with mercure :=
        { publish := p, subscribe := s, payload := c.mercure.payload, pubBack := b1, subBack := b2 } } := by
  obtain ⟨b1, b2, h⟩ := storeMembersM_mV p s c.mercure
  refine ⟨b1, b2, ?_⟩
  rw [storeMembersC, selC_mercure]
  simp only [beq_self_eq_true, if_true, mV, storeM, h]

theorem storeC_ns (p s : Option (List Str)) (rest : List (Str × JVal)) (c : C) :
    ∃ b1 b2, storeMembersC (("https://mercure.rocks/".toList, mV p s) :: rest) c =
      storeMembersC rest { c with namespaced := some (
          { publish := p, subscribe := s, payload := (c.namespaced.getD ({} : M)).payload,
            pubBack := b1, subBack := b2 } : M) } := by
  obtain ⟨b1, b2, h⟩ := storeMembersM_mV p s (c.namespaced.getD {})
  refine ⟨b1, b2, ?_⟩
  rw [storeMembersC, selC_ns]
  simp only [beq_self_eq_true, if_true, ne_ns_mercure, Bool.false_eq_true, if_false, mV, storeMPtr, h, Option.map_some]

theorem storeC_exp (e : Nat) (rest : List (Str × JVal)) (c : C) :
    storeMembersC (("exp".toList, JVal.num (Nat.toDigits 10 e)) :: rest) c =
      storeMembersC rest { c with exp := some (e, false) } := by
  rw [storeMembersC, selC_exp]
  simp only [beq_self_eq_true, if_true, ne_exp_mercure, ne_exp_ns, Bool.false_eq_true, if_false, storeDate,
    truncSeconds_toDigits]

theorem storeMembersC_nil (c : C) : storeMembersC [] c = some c := by rw [storeMembersC]

/-- **What an issuer writes is what the hub reads.** -/
theorem claimsOf_encode (p s : Option (List Str)) (ns : Option (Option (List Str) × Option (List Str))) (e : Option Nat) :
    claimsOf (encode p s ns e) =
      some { mercure := { publish := p, subscribe := s, payload := [] },
             namespaced := ns.map fun (np, nsub) => { publish := np, subscribe := nsub, payload := [] },
             exp := e } := by
  unfold claimsOf decode
  rw [← render_encodeV, parseJSON_render _ (wf_encodeV p s ns e)]
  simp only [encodeV]
  obtain ⟨b1, b2, h1⟩ := storeC_mercure p s
    ((match ns with
      | none => []
      | some (np, nsub) => [("https://mercure.rocks/".toList, mV np nsub)]) ++
     (match e with
      | none => []
      | some e => [("exp".toList, JVal.num (Nat.toDigits 10 e))])) {}
  rw [h1]
  rcases ns with _ | ⟨np, nsub⟩ <;> rcases e with _ | e
  · simp only [List.append_nil, storeMembersC_nil, Option.map_some, M.toClaim, Option.map_none]
  · simp only [List.nil_append]
    rw [storeC_exp]
    simp only [storeMembersC_nil, Option.map_some, M.toClaim, Option.map_none]
  · obtain ⟨b3, b4, h2⟩ := storeC_ns np nsub []
      { mercure := { publish := p, subscribe := s, payload := none, pubBack := b1, subBack := b2 } }
    simp only [List.append_nil]
    rw [h2]
    simp only [storeMembersC_nil, Option.map_some, M.toClaim, Option.getD_none, Option.map_none]
  · obtain ⟨b3, b4, h2⟩ := storeC_ns np nsub [("exp".toList, JVal.num (Nat.toDigits 10 e))]
      { mercure := { publish := p, subscribe := s, payload := none, pubBack := b1, subBack := b2 } }
    simp only [List.cons_append, List.nil_append]
    rw [h2, storeC_exp]
    simp only [storeMembersC_nil, Option.map_some, M.toClaim, Option.getD_none]

/-- … and the claim in effect is the namespaced one whenever it is present. -/
theorem effective_of_encode (p s : Option (List Str)) (ns : Option (Option (List Str) × Option (List Str))) (e : Option Nat) :
    ((claimsOf (encode p s ns e)).map Claims.effective).map (·.mercure) =
      some (match ns with
        | none => { publish := p, subscribe := s, payload := [] }
        | some (np, nsub) => { publish := np, subscribe := nsub, payload := [] }) := by
  rw [claimsOf_encode]
  rcases ns with _ | ⟨np, nsub⟩ <;> simp [Claims.effective]


end Mercure.ClaimsJson
