import Mercure.Props.C03Claims
import Mercure.Props.C03Token
import Mercure.Model.Subscribe
import Mercure.Lemmas.Auth
/-
  C03 — Only tokens verifiable with the configured key and algorithm grant rights.

  Partial by nature: that `sigOk` as computed by golang-jwt / Go crypto is cryptographically sound is
  in the trusted base; the theorems cover the decision logic around verification (DESIGN §8 C03).
-/
namespace Mercure.C03
open Mercure

/-- A token yields claims only if it is well-formed, its header algorithm is *exactly* the
    configured one, its signature verifies under the role's key, and exp / nbf are satisfied now. -/
theorem grant_sound (cfgAlg : Str) (t : AbsToken) (c : Claims) (h : validate cfgAlg t = some c) :
    t.wellFormed = true ∧ t.alg = cfgAlg ∧ t.sigOk = true ∧ t.expOk = true ∧ t.nbfOk = true ∧
    c = t.claims.effective := by
  unfold validate at h
  split at h
  · simp_all
  · simp at h

/-- …and every such token does (the check is exact). -/
theorem grant_complete (cfgAlg : Str) (t : AbsToken)
    (h : t.wellFormed = true ∧ t.alg = cfgAlg ∧ t.sigOk = true ∧ t.expOk = true ∧ t.nbfOk = true) :
    validate cfgAlg t = some t.claims.effective := by
  unfold validate; simp [h]

/-- Any other header algorithm — `none`, an HMAC on an RSA/EC hub, a sibling of the same family —
    is refused whatever the signature verdict. -/
theorem other_alg_refused (cfgAlg : Str) (t : AbsToken) (h : t.alg ≠ cfgAlg) : validate cfgAlg t = none := by
  unfold validate; simp [h]

theorem expired_refused (cfgAlg : Str) (t : AbsToken) (h : t.expOk = false) : validate cfgAlg t = none := by
  unfold validate; simp [h]

theorem not_yet_valid_refused (cfgAlg : Str) (t : AbsToken) (h : t.nbfOk = false) : validate cfgAlg t = none := by
  unfold validate; simp [h]

theorem bad_signature_refused (cfgAlg : Str) (t : AbsToken) (h : t.sigOk = false) : validate cfgAlg t = none := by
  unfold validate; simp [h]

/-- The credential a request presents: the value `authorize` hands to `validateJWT`, if it gets that far. -/
def presented (minH minQ : Nat) (r : AuthReq) : Option Str :=
  match r.authHeaders with
  | some [h] => if utf8Len h < minH || !(hasPrefix bearerPrefix h) then none else some (h.drop bearerPrefix.length)
  | some _ => none
  | none =>
    match r.queryAuth with
    | some [q] => if utf8Len q < minQ then none else some q
    | some _ => none
    | none => r.cookie

/-- A presented token that does not validate makes `authorize` fail — on every endpoint, for every
    value of the anonymous option (which `authorize` does not even see): never a downgrade. -/
theorem invalid_token_is_error (minH minQ : Nat) (tok : Str → Option Claims) (r : AuthReq) (po : List Str) (s : Str)
    (hp : presented minH minQ r = some s) (hv : tok s = none) :
    ∃ e, authorize minH minQ tok r po = .error e := by
  rcases r with ⟨ah, qa, ck, ip, o, rf, ro⟩
  unfold presented at hp
  unfold authorize
  rcases ah with _ | (_ | ⟨h, _ | ⟨h', hs⟩⟩) <;> simp at hp ⊢
  · rcases qa with _ | (_ | ⟨q, _ | ⟨q', qs⟩⟩) <;> simp at hp ⊢
    · subst hp
      simp [validateTok_of_none hv]
      cases ip <;> simp
      repeat' split
      all_goals simp_all
    · obtain ⟨h1, rfl⟩ := hp
      simp [validateTok_of_none hv, Nat.not_lt.mpr h1]
  · obtain ⟨⟨h1, h2⟩, rfl⟩ := hp
    simp [validateTok_of_none hv, Nat.not_lt.mpr h1, h2]

/-- Publish: 401. -/
theorem invalid_token_publish_401 (cfg : HubCfg) (M : Str → Str → Bool) (tok : Str → Option Claims) (r : PubReq) (s : Str)
    (hp : presented cfg.minHeader cfg.minQuery r.auth = some s) (hv : tok s = none) :
    publish cfg M tok r = .refused 401 unauthorizedBody := by
  obtain ⟨e, he⟩ := invalid_token_is_error cfg.minHeader cfg.minQuery tok r.auth cfg.publishOrigins s hp hv
  unfold publish; rw [he]

/-- Subscribe: 401 with anonymous mode on *and* off. -/
theorem invalid_token_subscribe_401 (cfg : HubCfg) (tok : Str → Option Claims) (r : SubReq) (s : Str)
    (hk : cfg.subKey = true)
    (hp : presented cfg.minHeader cfg.minQuery r.auth = some s) (hv : tok s = none) :
    subscribeDecision cfg tok r = .refused 401 unauthorizedBody := by
  obtain ⟨e, he⟩ := invalid_token_is_error cfg.minHeader cfg.minQuery tok r.auth [] s hp hv
  unfold subscribeDecision; simp [hk, he]

/-- Subscription API: refused. -/
theorem invalid_token_api_refused (cfg : HubCfg) (M : Str → Str → Bool) (tok : Str → Option Claims) (a : AuthReq) (url s : Str)
    (hk : cfg.subKey = true)
    (hp : presented cfg.minHeader cfg.minQuery a = some s) (hv : tok s = none) :
    apiAuthorized cfg M tok a url = false := by
  obtain ⟨e, he⟩ := invalid_token_is_error cfg.minHeader cfg.minQuery tok a [] s hp hv
  unfold apiAuthorized; simp [hk, he]

/-- Rights granted on subscribe are exactly the validated token's (effective) `mercure.subscribe`. -/
theorem subscribe_rights_from_token (cfg : HubCfg) (tok : Str → Option Claims) (r : SubReq)
    (c : Option Claims) (p : List Str) (l : Str) (h : subscribeDecision cfg tok r = .accepted c p l) :
    (c = none ∧ p = []) ∨ (∃ cl s, c = some cl ∧ tok s = some cl ∧ p = cl.mercure.subscribe.getD []) := by
  unfold subscribeDecision at h
  cases hk : cfg.subKey
  · simp only [hk, Bool.false_eq_true, if_false, Bool.false_and] at h
    split at h
    · simp at h
    · simp at h; left; simp [← h.1, ← h.2.1]
  · simp only [hk, if_true] at h
    cases ha : authorize cfg.minHeader cfg.minQuery tok r.auth [] with
    | error e => simp [ha] at h
    | ok oc =>
      simp only [ha] at h
      split at h
      · simp at h
      · split at h
        · simp at h
        · simp only [SubDecision.accepted.injEq] at h
          obtain ⟨rfl, rfl, -⟩ := h
          cases oc with
          | none => left; simp
          | some cl =>
            right
            obtain ⟨s, hs⟩ := authorize_ok_some ha
            exact ⟨cl, s, rfl, hs, rfl⟩

/-! non-vacuity -/
example : validate "RS256".toList { wellFormed := true, alg := "HS256".toList, sigOk := true, expOk := true, nbfOk := true, claims := {} } = none := by
  decide +kernel

end Mercure.C03

#print axioms Mercure.C03.grant_sound
#print axioms Mercure.C03.grant_complete
#print axioms Mercure.C03.other_alg_refused
#print axioms Mercure.C03.expired_refused
#print axioms Mercure.C03.not_yet_valid_refused
#print axioms Mercure.C03.bad_signature_refused
#print axioms Mercure.C03.invalid_token_is_error
#print axioms Mercure.C03.invalid_token_publish_401
#print axioms Mercure.C03.invalid_token_subscribe_401
#print axioms Mercure.C03.invalid_token_api_refused
#print axioms Mercure.C03.subscribe_rights_from_token
-- from the bytes of the payload to the claims (Model/Claims; statements in Props/C03Claims)
#print axioms Mercure.C03Claims.claimsOf_encode
#print axioms Mercure.C03Claims.effective_of_encode
#print axioms Mercure.C03Claims.wrong_kind_is_invalid
#print axioms Mercure.C03Claims.non_string_element_is_invalid
#print axioms Mercure.C03Claims.unknown_key_ignored
#print axioms Mercure.C03Claims.fresh_array_is_the_list
#print axioms Mercure.C03Claims.parseJSON_render
#print axioms Mercure.C03Claims.repeated_key_merges
#print axioms Mercure.C03Claims.null_element_keeps_stale_value
#print axioms Mercure.C03Claims.folded_keys
#print axioms Mercure.C03Claims.null_claims
#print axioms Mercure.C03Claims.dates
-- from the compact serialisation to the claims (Model/Token; statements in Props/C03Token)
#print axioms Mercure.C03Token.b64_roundtrip
#print axioms Mercure.C03Token.split_join
#print axioms Mercure.C03Token.derive_mint
#print axioms Mercure.C03Token.malformed_examples
