package main

import (
	"context"
	"fmt"
	"net/http"
	"net/url"
	"runtime"
	"strings"
	"sync"
	"testing/synctest"
	"time"

	"verifharness/pkg/h"
	"verifharness/pkg/jws"

	"github.com/dunglas/mercure"
)

func init() { register("timed", "C16", runTimed) }

type timedCase struct {
	WT      int      `json:"write_timeout_ms"`
	DT      int      `json:"dispatch_timeout_ms"`
	HB      int      `json:"heartbeat_ms"`
	Exp     int      `json:"token_exp_ms"`    // 0 = no exp claim (ms after t0, whole seconds)
	Claim   string   `json:"claim,omitempty"` // "" = the plain "mercure" claim; "ns" = the namespaced fallback claim; "cookie" = plain claim in the cookie
	Arr     [][2]int `json:"arrivals"`        // (ms after t0, id)
	Close   int      `json:"client_close_ms"`
	Horizon int      `json:"horizon_ms"`
	// Tie: the publishes and the client close are issued the instant the clock reaches their time, without first
	// letting the handler settle — a timer due at that same instant and the arrival are then both ready when the
	// handler's select runs (Go picks one at random; the model accepts every resolution)
	Tie bool `json:"tie,omitempty"`
}

// timedRW records every write with its virtual time and enforces the armed write deadline.
type timedRW struct {
	mu       sync.Mutex
	hdr      http.Header
	t0       time.Time
	deadline time.Time
	trace    []string
}

func (w *timedRW) Header() http.Header { return w.hdr }
func (w *timedRW) WriteHeader(int)     {}
func (w *timedRW) Flush()              {}

func (w *timedRW) SetWriteDeadline(t time.Time) error {
	w.mu.Lock()
	defer w.mu.Unlock()
	w.deadline = t

	return nil
}

func (w *timedRW) Write(p []byte) (int, error) {
	w.mu.Lock()
	defer w.mu.Unlock()
	ms := time.Since(w.t0).Milliseconds()
	if !w.deadline.IsZero() && !time.Now().Before(w.deadline) {
		w.trace = append(w.trace, fmt.Sprintf("%d:fail", ms))

		return 0, errDeadline
	}
	s := string(p)
	if s == ":\n" {
		w.trace = append(w.trace, fmt.Sprintf("%d:c", ms))
	} else if evs := sseParse(s); len(evs) == 1 {
		w.trace = append(w.trace, fmt.Sprintf("%d:%s", ms, evs[0].ID))
	} else {
		w.trace = append(w.trace, fmt.Sprintf("%d:?%q", ms, s))
	}

	return len(p), nil
}

func runTimedCase(c *h.Ctx, r *h.Report, cs timedCase) {
	var trace []string
	returnedAt := int64(-1)
	stuck := ""
	bubble := func() {
		t0 := time.Now()
		cfg := hubCfg{PubAlg: "HS256", SubAlg: "HS256", Anonymous: true}
		f := newFixture(cfg, nil, mercure.WithWriteTimeout(time.Duration(cs.WT)*time.Millisecond),
			mercure.WithDispatchTimeout(time.Duration(cs.DT)*time.Millisecond), mercure.WithHeartbeat(time.Duration(cs.HB)*time.Millisecond))
		q := url.Values{"topic": {"t"}}
		ctx, cancel := context.WithCancel(context.Background())
		req, _ := http.NewRequestWithContext(ctx, http.MethodGet, "http://hub.test"+hubURL+"?"+q.Encode(), nil)
		if cs.Exp != 0 {
			claimKey := "mercure"
			if cs.Claim == "ns" {
				claimKey = "https://mercure.rocks/" // the namespaced spelling of the claim: same rights, same expiry
			}
			tok := jws.Mint(f.subKey, fmt.Sprintf(`{%q:{"subscribe":["*"]},"exp":%d}`, claimKey, t0.Unix()+int64(cs.Exp/1000)))
			if cs.Claim == "cookie" {
				req.AddCookie(&http.Cookie{Name: "mercureAuthorization", Value: tok})
			} else {
				req.Header.Set("Authorization", "Bearer "+tok)
			}
		}
		w := &timedRW{hdr: http.Header{}, t0: t0}
		returned := int64(-1)
		go func() {
			f.hub.ServeHTTP(w, req)
			returned = time.Since(t0).Milliseconds()
		}()
		synctest.Wait()
		pubTok := jws.Mint(f.pubKey, `{"mercure":{"publish":["*"]}}`)
		at := func(ms int) {
			if d := time.Duration(ms)*time.Millisecond - time.Since(t0); d > 0 {
				time.Sleep(d)
				if cs.Tie {
					return
				}
			}
			synctest.Wait()
		}
		type act struct {
			ms, id int
			close  bool
		}
		var acts []act
		for _, a := range cs.Arr {
			acts = append(acts, act{ms: a[0], id: a[1]})
		}
		if cs.Close > 0 {
			acts = append(acts, act{ms: cs.Close, close: true})
		}
		for i := range acts {
			for j := i + 1; j < len(acts); j++ {
				if acts[j].ms < acts[i].ms {
					acts[i], acts[j] = acts[j], acts[i]
				}
			}
		}
		for _, a := range acts {
			at(a.ms)
			if returned >= 0 {
				break
			}
			if a.close {
				cancel()
				synctest.Wait()

				continue
			}
			pr, _ := http.NewRequest(http.MethodPost, "http://hub.test"+hubURL, strings.NewReader(url.Values{"topic": {"t"}, "id": {fmt.Sprintf("e%d", a.id)}}.Encode()))
			pr.Header.Set("Content-Type", "application/x-www-form-urlencoded")
			pr.Header.Set("Authorization", "Bearer "+pubTok)
			f.hub.ServeHTTP(newRW(), pr)
			synctest.Wait()
		}
		cs2 := cs
		cs2.Tie = false
		cs, cs2 = cs2, cs
		at(cs.Horizon)
		cs = cs2
		returnedAt = returned
		w.mu.Lock()
		trace = append([]string(nil), w.trace...)
		w.mu.Unlock()
		if returned >= 0 {
			// why did it return? a failed write is in the trace; a client close we did ourselves
			last := ""
			if len(trace) > 0 {
				last = trace[len(trace)-1]
			}
			switch {
			case strings.HasSuffix(last, ":fail"):
				trace = append(trace, fmt.Sprintf("%d:endwrite", returned))
			case cs.Close > 0 && returned >= int64(cs.Close):
				trace = append(trace, fmt.Sprintf("%d:client", returned))
			default:
				trace = append(trace, fmt.Sprintf("%d:self", returned))
			}
		}
		cancel()
		f.hub.Stop()
		synctest.Wait()
	}
	func() {
		defer func() {
			if p := recover(); p != nil {
				msg := fmt.Sprint(p)
				if !strings.Contains(msg, "deadlock") {
					panic(p)
				}
				// the handler never returned although the client is gone and the hub stopped: synctest found every
				// goroutine of the bubble blocked for ever
				buf := make([]byte, 1<<16)
				buf = buf[:runtime.Stack(buf, true)]
				for _, blk := range strings.Split(string(buf), "\n\n") {
					if strings.Contains(blk, "dunglas/mercure.") {
						for _, l := range strings.Split(blk, "\n") {
							if strings.HasPrefix(l, "github.com/dunglas/mercure.") {
								stuck += strings.SplitN(l, "(", 2)[0] + " <- "
							}
						}
					}
				}
				if stuck == "" {
					stuck = msg
				}
			}
		}()
		synctest.Run(bubble)
	}()
	impl := strings.Join(trace, " ")
	var arr []string
	for _, a := range cs.Arr {
		arr = append(arr, fmt.Sprintf("%d:%d", a[0], a[1]))
	}
	as := strings.Join(arr, ",")
	if as == "" {
		as = "-"
	}
	opt := func(v int) string {
		if v == 0 {
			return "-"
		}

		return h.Itoa(v)
	}
	model := c.Driver.Ask1(h.Line("timed", h.Itoa(cs.WT), h.Itoa(cs.DT), h.Itoa(cs.HB), opt(cs.Exp), as, opt(cs.Close), h.Itoa(cs.Horizon)))
	r.Evaluations++
	// acceptor: the model answers every trace the loop can produce (one per resolution of same-instant races)
	accepted := false
	alts := strings.Split(model, " | ")
	for i, m := range alts {
		if m == impl && !accepted {
			accepted = true
			if len(alts) > 1 {
				r.Count(fmt.Sprintf("tie:implementation took resolution #%d of the model's list", i+1))
			}
		}
	}
	if len(alts) > 1 {
		r.Count("tie:case with several resolutions")
		r.CountN("tie:resolutions offered", len(alts))
	}
	if !accepted {
		r.Disagree(h.Disagreement{Class: "C16.timed-loop", Case: cs, Model: model, Impl: impl})
	}
	rp := map[string]any{"family": "timed", "case": cs}
	// a connection is released when its client leaves, whatever the timers were doing (implementation alone)
	if stuck != "" {
		for _, k := range []string{"C13", "C16"} {
			r.Violate(h.Violation{Key: k + ":handler-never-returns", What: "the subscribe handler is blocked for ever (client gone, hub stopped): " + stuck + " trace: " + impl, Replay: rp})
		}
	} else if cs.Close > 0 && cs.Close <= cs.Horizon && returnedAt < 0 {
		for _, k := range []string{"C13", "C16"} {
			r.Violate(h.Violation{Key: k + ":connection-not-released-after-client-left", What: fmt.Sprintf("the client left at %d ms; at %d ms the handler has still not returned; trace: %s", cs.Close, cs.Horizon, impl), Replay: rp})
		}
	}
	// the property's oracle on the implementation's trace alone
	wd := 0
	if cs.WT != 0 {
		wd = cs.WT
	}
	if cs.Exp != 0 && (wd == 0 || cs.Exp < wd) {
		wd = cs.Exp
	}
	lastWrite, end := 0, -1
	endKind := ""
	for _, e := range trace {
		var ms int
		var k string
		fmt.Sscanf(e, "%d:%s", &ms, &k)
		switch k {
		case "fail":
		case "endwrite", "client", "self":
			end, endKind = ms, k
		default:
			if wd != 0 && ms >= wd {
				r.Violate(h.Violation{Key: "C16:write-after-deadline", What: fmt.Sprintf("something was written at %d ms, after the deadline %d ms: %s", ms, wd, impl), Replay: rp})
			}
			if cs.HB != 0 && ms-lastWrite > cs.HB {
				r.Violate(h.Violation{Key: "C16:heartbeat-gap", What: fmt.Sprintf("no write between %d and %d ms with heartbeat %d ms: %s", lastWrite, ms, cs.HB, impl), Replay: rp})
			}
			lastWrite = ms
		}
	}
	stop := cs.Horizon
	if end >= 0 {
		stop = end
	}
	if cs.HB != 0 && stop-lastWrite > cs.HB {
		r.Violate(h.Violation{Key: "C16:heartbeat-gap", What: fmt.Sprintf("open stream silent from %d to %d ms with heartbeat %d ms: %s", lastWrite, stop, cs.HB, impl), Replay: rp})
	}
	if cs.WT != 0 {
		want := max(wd-cs.DT, 0)
		if want <= cs.Horizon && (cs.Close == 0 || cs.Close > want) {
			// (dispatch timeout 0: the timer and the deadline are the same instant; a write that select serves first at
			// that very instant fails and ends the connection there — Props/C16 self_disconnect_or_deadline_at_tie)
			if !(end == want && (endKind == "self" || (endKind == "endwrite" && want == wd))) {
				r.Violate(h.Violation{Key: "C16:self-disconnect-instant", What: fmt.Sprintf("with a maximum duration the hub must end the connection itself at %d ms (deadline %d - dispatch timeout %d); trace: %s", want, wd, cs.DT, impl), Replay: rp})
			}
		}
	} else if wd != 0 && endKind == "self" {
		r.Violate(h.Violation{Key: "C16:unexpected-self-disconnect", What: "no maximum duration configured but the hub ended the connection by itself: " + impl, Replay: rp})
	}
	// a write can only fail — and end the connection — once the deadline (maximum duration / token expiry) is reached
	if endKind == "endwrite" && (wd == 0 || end < wd) {
		r.Violate(h.Violation{Key: "C16:connection-ended-by-a-failed-write-before-the-deadline", What: fmt.Sprintf("a write failed and the hub ended the connection at %d ms; the deadline is %d ms (0 = none): %s", end, wd, impl), Replay: rp})
	}
	if end >= 0 && (endKind == "self" || endKind == "endwrite") {
		r.Count("ended:" + endKind)
	}
	if cs.WT == 0 {
		r.Count("wt:0")
	}
	if cs.Exp != 0 {
		r.Count("exp:set")
	}
	if len(cs.Arr) > 0 && (cs.HB != 0 || wd != 0) {
		r.Nontrivial(fmt.Sprint(cs))
	}
	r.Sample(map[string]any{"case": cs, "trace": impl})
}

func runTimed(c *h.Ctx, r *h.Report) {
	r.Rule = "the real SubscribeHandler inside a synctest bubble (virtual clock) with a ResponseWriter that implements SetWriteDeadline and fails writes at or after the armed deadline: write timeout in {0, 5..120 s}, dispatch timeout in {0, 1..30 s} (also larger than the write timeout), heartbeat in {0, 7, 13, 40 s}, token (claim spelt 'mercure' or with the namespaced fallback key, in the Authorization header or the cookie) expiry absent / before / after the write timeout, 0-6 publishes at arbitrary instants, optional client close; a second stream of cases places publishes and the client's close on the very instant a heartbeat or the disconnection timer is due (same-instant races, resolved at random by Go's select); the recorded (virtual time, write | failed write | return) trace must be one of the traces the model produces over all resolutions of such races (Timed.runAll, proved sound and complete for the choice-parametrised loop the theorems speak of), and the property's oracle (heartbeat gap, nothing written after the deadline, self-disconnect exactly at deadline - dispatch timeout) is evaluated on the implementation's trace alone. Non-trivial = case with at least one publish and a heartbeat or a deadline; distinct by content."
	if c.Replay != "" {
		var rp struct {
			Case timedCase `json:"case"`
		}
		readReplay(c.Replay, &rp)
		runTimedCase(c, r, rp.Case)

		return
	}
	for _, cs := range []timedCase{
		{WT: 60000, DT: 5000, HB: 25000, Arr: [][2]int{{30137, 1}}, Horizon: 200000},
		{WT: 0, DT: 5000, HB: 40000, Exp: 90000, Horizon: 200000},
		{WT: 0, DT: 0, HB: 7000, Exp: 17000, Claim: "ns", Horizon: 100000},
		{WT: 3000, DT: 5000, HB: 0, Horizon: 100000},
		{WT: 0, DT: 0, HB: 0, Arr: [][2]int{{500, 1}}, Horizon: 100000},
	} {
		runTimedCase(c, r, cs)
	}
	n := c.Scale(1200, 20000)
	for i := 0; i < n; i++ {
		rr := c.Rand.Fork()
		cs := timedCase{Horizon: 150000}
		// (the write timeout is applied before the dispatch timeout, as the Caddy module and the legacy configuration
		// do; values below the 5 s default dispatch timeout included)
		cs.WT = h.Pick(rr, []int{0, 0, 1000, 3000, 5000, 20000, 60000, 120000})
		cs.DT = h.Pick(rr, []int{0, 1000, 5000, 30000})
		cs.HB = h.Pick(rr, []int{0, 7000, 13000, 40000})
		if rr.Chance(1, 2) {
			cs.Exp = h.Pick(rr, []int{3000, 17000, 45000, 90000, 200000})
			cs.Claim = h.Pick(rr, []string{"", "", "ns", "cookie"})
		}
		// arrivals: distinct non-zero residues mod 1000
		na := rr.Intn(7)
		res := map[int]bool{}
		for k := 0; k < na; k++ {
			ms := rr.Intn(140)*1000 + 1 + rr.Intn(998)
			if res[ms%1000] {
				continue
			}
			res[ms%1000] = true
			cs.Arr = append(cs.Arr, [2]int{ms, k + 1})
		}
		for a := range cs.Arr {
			for b := a + 1; b < len(cs.Arr); b++ {
				if cs.Arr[b][0] < cs.Arr[a][0] {
					cs.Arr[a], cs.Arr[b] = cs.Arr[b], cs.Arr[a]
				}
			}
		}
		if rr.Chance(1, 6) {
			cs.Close = rr.Intn(100)*1000 + 500 + rr.Intn(400)
			if res[cs.Close%1000] {
				cs.Close = 0
			}
		}
		// avoid a tie between the unbroken heartbeat chain and the disconnection timer / deadline
		wd := cs.WT
		if cs.Exp != 0 && (wd == 0 || cs.Exp < wd) {
			wd = cs.Exp
		}
		if cs.HB != 0 && wd != 0 && (max(wd-cs.DT, 0)%cs.HB == 0 || wd%cs.HB == 0) {
			cs.HB += 1000
		}
		runTimedCase(c, r, cs)
	}
	// same-instant races, on purpose: a publish (or the client's close) at the very instant a heartbeat or the
	// disconnection timer is due, issued before the handler has settled
	nt := c.Scale(160, 3000)
	for i := 0; i < nt; i++ {
		rr := c.Rand.Fork()
		cs := timedCase{Horizon: 100000, Tie: true}
		cs.HB = h.Pick(rr, []int{7000, 13000, 0})
		cs.WT = h.Pick(rr, []int{0, 0, 30000, 60000})
		cs.DT = h.Pick(rr, []int{0, 1000, 5000})
		if rr.Chance(1, 3) {
			cs.Exp = h.Pick(rr, []int{21000, 45000, 90000})
		}
		wd := cs.WT
		if cs.Exp != 0 && (wd == 0 || cs.Exp < wd) {
			wd = cs.Exp
		}
		// walk the chain of instants at which the heartbeat is due, placing arrivals on some of them
		due, id := cs.HB, 1
		for k := rr.Intn(5) + 1; k > 0 && cs.HB != 0 && due < 90000; k-- {
			switch rr.Intn(3) {
			case 0: // an arrival exactly when the heartbeat is due (two arrivals sometimes)
				cs.Arr = append(cs.Arr, [2]int{due, id})
				id++
				if rr.Chance(1, 4) {
					cs.Arr = append(cs.Arr, [2]int{due, id})
					id++
				}
			case 1: // an arrival a little before: the heartbeat chain restarts from there
				due -= 1 + rr.Intn(3000)
				cs.Arr = append(cs.Arr, [2]int{due, id})
				id++
			}
			due += cs.HB
		}
		if cs.WT != 0 && rr.Chance(1, 2) { // an arrival exactly when the disconnection timer is due
			cs.Arr = append(cs.Arr, [2]int{max(wd-cs.DT, 0), id})
		}
		if rr.Chance(1, 3) && cs.HB != 0 { // the client leaves exactly when a heartbeat may be due
			cs.Close = due
		} else if rr.Chance(1, 2) {
			cs.Close = 95000
		}
		for a := range cs.Arr {
			for b := a + 1; b < len(cs.Arr); b++ {
				if cs.Arr[b][0] < cs.Arr[a][0] {
					cs.Arr[a], cs.Arr[b] = cs.Arr[b], cs.Arr[a]
				}
			}
		}
		var arr [][2]int
		for _, a := range cs.Arr {
			if a[0] > 0 && a[0] < cs.Horizon {
				arr = append(arr, a)
			}
		}
		cs.Arr = arr
		r.Count("tie:generated")
		runTimedCase(c, r, cs)
	}
}
