import Mercure.Model.Subscribe
import Mercure.Model.SubList
/-
  Mercure.Model.Hub — the hub as a state machine over *atomic public operations* (pass 1 of
  DESIGN §4.3a): publish, connect (registerSubscriber + AddSubscriber + the handler loop up to
  quiescence), client disconnect, stalled / released writer, write failure, hub close, restart.
  Both transports. Subscription events, metrics and the subscription API are part of it.

  Quiescent semantics: after every operation each connection handler has consumed everything it can
  (its writer is either free, blocked by the harness — `stalled` — or failed).
-/
namespace Mercure

inductive Kind where | «local» | bolt
  deriving DecidableEq, Repr

/-- One subscriber connection. -/
structure Conn where
  label     : Nat
  sid       : Str                  -- "urn:uuid:…"
  sels      : List Str
  allowed   : List Str             -- claims.subscribe ([] when anonymous or absent)
  payload   : Str
  reqLEID   : Str
  respLEID  : Option Str           -- Last-Event-ID response header
  out       : List Update := []    -- buffered in the subscriber's channel
  inflight  : Option Update := none  -- taken from the channel, blocked in a stalled write
  closedOut : Bool := false        -- channel closed (disconnect / overflow / hub close)
  stalled   : Bool := false        -- the harness blocks this connection's writer
  failNext  : Bool := false        -- the next write fails
  written   : List Update := []    -- events fully written to the response
  exited    : Bool := false        -- the handler loop returned (shutdown pending or done)
  done      : Bool := false        -- shutdown completed
  joinedAt  : Nat := 0             -- ghost: number of accepted updates when the connection was indexed
  replayed  : List Update := []    -- ghost: the stored updates negotiated for replay (before filtering)
  shutdownOpen : Bool := false     -- ghost: the hub was open when this connection was shut down
  epoch     : Nat := 0             -- the hub incarnation (restarts so far) this connection belongs to
  enq       : List Update := []    -- ghost: everything ever put into the channel
  deriving Repr

structure Metrics where
  total   : Nat := 0
  gauge   : Int := 0
  updates : Nat := 0
  deriving DecidableEq, Repr

structure HubSt where
  cfg      : HubCfg
  kind     : Kind
  size     : Nat := 0              -- Bolt retention (0 = keep everything); cleanup runs on every publish
  cap      : Nat := 1000           -- outBufferLength
  db       : List (Nat × Update) := []   -- Bolt: (sequence, update), ascending
  seq      : Nat := 0              -- bucket sequence
  lastEventID : Str := "earliest".toList
  conns    : List Conn := []       -- every connection ever accepted, by label
  index    : List Nat := []        -- labels in the transport's subscriber list (index order)
  closed   : Bool := false
  epoch    : Nat := 0              -- restarts so far
  uuid     : Nat := 0              -- calls of uuid.NewV4 so far
  metrics  : Metrics := {}
  accepted : List Update := []     -- ghost: every update a transport Dispatch accepted, in order
  events   : List (Nat × Str × Bool) := []  -- ghost: subscription events dispatched (label, selector, active)
  okPubs   : Nat := 0              -- ghost: publish requests answered 200
  openStreams : Int := 0           -- ghost: accepted connections whose handler has not finished shutdown
  failed   : List (Nat × List Str × Bool) := []  -- ghost: registrations that failed half-way (label, selectors, hub was open)
  deriving Repr

def hexDigitLower (n : Nat) : Char := if n < 10 then Char.ofNat (48 + n) else Char.ofNat (87 + n)

def hexFixed : Nat → Nat → Str
  | 0, _ => []
  | w + 1, n => hexFixed w (n / 16) ++ [hexDigitLower (n % 16)]

/-- The harness installs a counting UUID generator: the n-th call yields this id. -/
def uuidOf (n : Nat) : Str := "urn:uuid:00000000-0000-4000-8000-".toList ++ hexFixed 12 n

def earliest : Str := "earliest".toList

/-- A connection still fed by the hub: indexed and its channel open. -/
def Conn.receives (c : Conn) : Bool := !c.closedOut

/-- `LocalSubscriber.Dispatch` onto a ready subscriber: enqueue, or overflow ⇒ cut off
    (flag set and channel closed; what is buffered stays readable). -/
def Conn.enqueue (cap : Nat) (c : Conn) (u : Update) : Conn × Bool :=
  if c.closedOut then (c, false)
  else if c.out.length < cap then ({ c with out := c.out ++ [u], enq := c.enq ++ [u] }, true)
  else ({ c with closedOut := true }, false)

def Conn.matches (M : Str → Str → Bool) (c : Conn) (u : Update) : Bool :=
  matchTopics M c.sels c.allowed u.topics u.priv

def updConn (conns : List Conn) (label : Nat) (f : Conn → Conn) : List Conn :=
  conns.map (fun c => if c.label == label then f c else c)

def getConn (conns : List Conn) (label : Nat) : Option Conn := conns.find? (·.label == label)

/-- Retention (bolt.go `cleanup`, run on every publish): delete every key ≤ last − size. -/
def retain (size : Nat) (last : Nat) (db : List (Nat × Update)) : List (Nat × Update) :=
  if size == 0 || size ≥ last then db else db.filter (fun e => e.1 > last - size)

/-- `Transport.Dispatch`: assign an id, (Bolt) persist + cleanup, fan out to the indexed matching
    subscribers. Returns the id given to the update; `none` = ErrClosedTransport. -/
def HubSt.dispatch (M : Str → Str → Bool) (st : HubSt) (u : Update) : HubSt × Option Str :=
  if st.closed then (st, none) else
  let (u, st) := if u.id == [] then ({ u with id := uuidOf st.uuid }, { st with uuid := st.uuid + 1 }) else (u, st)
  let st := match st.kind with
    | .bolt => { st with seq := st.seq + 1, db := retain st.size (st.seq + 1) (st.db ++ [(st.seq + 1, u)]) }
    | .local => st
  let conns := st.conns.map (fun c =>
    if st.index.contains c.label && c.matches M u then (c.enqueue st.cap u).1 else c)
  ({ st with conns := conns, lastEventID := u.id, accepted := st.accepted ++ [u] }, some u.id)

/-! ### subscription events (subscribe.go `dispatchSubscriptionUpdate`) -/

def jsonEscape : Str → Str
  | [] => []
  | c :: cs =>
    (if c == '"' then ['\\', '"'] else if c == '\\' then ['\\', '\\']
     else if c == '\n' then ['\\', 'n'] else if c == '\r' then ['\\', 'r'] else if c == '\t' then ['\\', 't']
     else if c == '<' then "\\u003c".toList else if c == '>' then "\\u003e".toList else if c == '&' then "\\u0026".toList
     else if c.toNat < 32 then "\\u00".toList ++ hexFixed 2 c.toNat
     else if c.toNat == 0x2028 then "\\u2028".toList else if c.toNat == 0x2029 then "\\u2029".toList
     else [c]) ++ jsonEscape cs

/-- The subscription document as the harness canonicalises it (field order of the Go struct). -/
structure SubDoc where
  id : Str
  subscriber : Str
  topic : Str
  active : Bool
  payload : Str
  deriving DecidableEq, Repr

def subDocsOf (cfg : HubCfg) (M : Str → Str → Bool) (c : Conn) (topic : Str) (active : Bool) : List Subscription :=
  getSubscriptions M cfg.spacePlus c.sid c.sels c.allowed c.payload topic active

/-- One update per subscription; the body is opaque here (`data` carries a canonical rendering the
    harness reproduces from the JSON it receives). -/
def subscriptionUpdate (s : Subscription) : Update :=
  { id := [], topics := [s.id], priv := true, type := [], retry := 0,
    data := "sub|".toList ++ s.id ++ "|".toList ++ s.subscriber ++ "|".toList ++ s.topic ++ "|".toList ++
            (if s.active then ['1'] else ['0']) ++ "|".toList ++ s.payload }

def HubSt.subscriptionEvents (M : Str → Str → Bool) (st : HubSt) (c : Conn) (active : Bool) : HubSt :=
  if !st.cfg.subscriptions then st else
  (subDocsOf st.cfg M c [] active).foldl (fun st s =>
    match st.dispatch M (subscriptionUpdate s) with
    | (st', some _) => { st' with events := st'.events ++ [(c.label, s.topic, active)] }
    | (st', none) => st') st

/-! ### the handler loop at quiescence -/

/-- Consume what the connection can: write buffered updates unless the writer is stalled; a failing
    write ends the handler; an empty closed channel ends it too. Returns the connection and
    whether the handler returned in this step. -/
def Conn.pump (c : Conn) : Conn :=
  if c.exited then c
  else if c.stalled then
    -- the handler took the first buffered update (if any) and is blocked writing it
    match c.inflight, c.out with
    | none, u :: rest => { c with inflight := some u, out := rest }
    | none, [] => if c.closedOut then { c with exited := true } else c
    | _, _ => c
  else
    let pending := (match c.inflight with | some u => [u] | none => []) ++ c.out
    if c.failNext && pending != [] then
      { c with inflight := none, out := c.out.drop (if c.inflight.isSome then 0 else 1), failNext := false, exited := true }
    else
      let c := { c with inflight := none, out := [], written := c.written ++ pending }
      if c.closedOut then { c with exited := true } else c

/-- `shutdown` of every handler that returned but is not yet cleaned up: Disconnect,
    RemoveSubscriber, `active=false` events, gauge decrement. -/
def HubSt.shutdown (M : Str → Str → Bool) (st : HubSt) (label : Nat) : HubSt :=
  match getConn st.conns label with
  | none => st
  | some c =>
    if c.done then st else
    -- a connection that survived a restart still talks to the old (closed) hub and transport
    let hubOpen := !st.closed && c.epoch == st.epoch
    let st := { st with conns := updConn st.conns label (fun c =>
                  { c with closedOut := true, exited := true, done := true, shutdownOpen := hubOpen }) }
    let st := if hubOpen then { st with index := st.index.filter (· != label) } else st
    let st := if hubOpen then st.subscriptionEvents M c false else st
    { st with metrics := { st.metrics with gauge := st.metrics.gauge - 1 }, openStreams := st.openStreams - 1 }

/-- Run every handler to quiescence. Handlers that returned are shut down (in label order); their
    `active=false` events may feed other connections, hence the fuel. -/
def HubSt.settle (M : Str → Str → Bool) : Nat → HubSt → HubSt
  | 0, st => st
  | fuel + 1, st =>
    let st := { st with conns := st.conns.map Conn.pump }
    let pending := (st.conns.filter (fun c => c.exited && !c.done)).map (·.label)
    if pending == [] then
      if st.conns.all (fun c => c.exited || c.stalled || (c.out == [] && c.inflight.isNone)) then st
      else HubSt.settle M fuel st
    else HubSt.settle M fuel (pending.foldl (HubSt.shutdown M) st)

/-! ### operations -/

structure PubResp where
  status : Nat
  body   : Str
  deriving DecidableEq, Repr

def HubSt.publish (M : Str → Str → Bool) (tok : Str → Option Claims) (st : HubSt) (r : PubReq) : HubSt × PubResp :=
  match Mercure.publish st.cfg M tok r with
  | .refused s b => (st, { status := s, body := b })
  | .accepted u =>
    match st.dispatch M u with
    | (st', some id) =>
      let st' := { st' with metrics := { st'.metrics with updates := st'.metrics.updates + 1 }, okPubs := st'.okPubs + 1 }
      (st'.settle M (st'.conns.length + 2), { status := 200, body := id })
    | (st', none) => (st', { status := 500, body := [] })     -- PublishHandler panics on a closed transport

structure SubResp where
  status   : Nat
  body     : Str
  respLEID : Option Str
  deriving DecidableEq, Repr

/-- Bolt history negotiation (bolt.go `dispatchHistory`, sequential: nothing is published during it):
    the response id and the stored updates to replay. -/
def negotiate (db : List (Nat × Update)) (req : Str) : Str × List Update :=
  if req == earliest then (earliest, db.map (·.2))
  else
    let rec go : List (Nat × Update) → Str → Str × List Update
      | [], last => (last, [])
      | e :: rest, _ => if e.2.id == req then (req, rest.map (·.2)) else go rest e.2.id
    go db earliest

/-- Replay into the (not yet read) channel: matching updates, until the buffer overflows. -/
def Conn.replay (M : Str → Str → Bool) (cap : Nat) (c : Conn) : List Update → Conn
  | [] => c
  | u :: us =>
    if c.matches M u then
      match c.enqueue cap u with
      | (c', true) => Conn.replay M cap c' us
      | (c', false) => c'
    else Conn.replay M cap c us

def HubSt.connect (M : Str → Str → Bool) (tok : Str → Option Claims) (st : HubSt) (label : Nat) (r : SubReq) :
    HubSt × SubResp :=
  -- NewLocalSubscriber is called first: one uuid per request, accepted or not
  let sid := uuidOf st.uuid
  let st := { st with uuid := st.uuid + 1 }
  match subscribeDecision st.cfg tok r with
  | .refused s b => (st, { status := s, body := b, respLEID := none })
  | .accepted c priv leid =>
    let conn : Conn := { label := label, sid := sid, sels := r.topics, allowed := priv,
                         payload := (match c with | some c => c.mercure.payload | none => []),
                         reqLEID := leid, respLEID := none, epoch := st.epoch }
    let st := st.subscriptionEvents M conn true
    if st.closed then
      -- AddSubscriber fails: 503, active=false events (which fail too on a closed transport)
      (st.subscriptionEvents M conn false, { status := 503, body := "Service Unavailable\n".toList, respLEID := none })
    else
      let (resp, conn) :=
        if leid == [] then (none, conn)
        else match st.kind with
          | .local => (some earliest, conn)
          | .bolt =>
            let (rid, ups) := negotiate st.db leid
            (some rid, { conn.replay M st.cap ups with replayed := ups })
      let conn := { conn with respLEID := resp, joinedAt := st.accepted.length }
      let st := { st with conns := st.conns ++ [conn], index := st.index ++ [label],
                          metrics := { st.metrics with total := st.metrics.total + 1, gauge := st.metrics.gauge + 1 },
                          openStreams := st.openStreams + 1 }
      (st.settle M (st.conns.length + 2), { status := 200, body := [], respLEID := resp })

/-- A registration that fails half-way: the request is authorised and announced, then `AddSubscriber`
    returns an error although the hub is open — on Bolt, the history replay hits an entry it cannot
    decode or a read error (an environment fault: the operation, not the model, says that it happens).
    The hub answers 503, unregisters the subscriber again (`RemoveSubscriber`: the transport had put it
    in its list before replaying) and announces the end. No connection comes into being. -/
def HubSt.connectFailing (M : Str → Str → Bool) (tok : Str → Option Claims) (st : HubSt) (label : Nat) (r : SubReq) :
    HubSt × SubResp :=
  let sid := uuidOf st.uuid
  let st := { st with uuid := st.uuid + 1 }
  match subscribeDecision st.cfg tok r with
  | .refused s b => (st, { status := s, body := b, respLEID := none })
  | .accepted c priv leid =>
    let conn : Conn := { label := label, sid := sid, sels := r.topics, allowed := priv,
                         payload := (match c with | some c => c.mercure.payload | none => []),
                         reqLEID := leid, respLEID := none, epoch := st.epoch }
    let wasOpen := !st.closed
    let st := st.subscriptionEvents M conn true
    let st := st.subscriptionEvents M conn false
    let st := { st with failed := st.failed ++ [(label, r.topics, wasOpen)] }
    (st.settle M (st.conns.length + 2), { status := 503, body := "Service Unavailable\n".toList, respLEID := none })

/-- The client goes away (request context cancelled). -/
def HubSt.clientClose (M : Str → Str → Bool) (st : HubSt) (label : Nat) : HubSt :=
  match getConn st.conns label with
  | none => st
  | some c =>
    if c.exited then st else
    let st := { st with conns := updConn st.conns label (fun c => { c with stalled := false, inflight := none }) }
    let st := st.shutdown M label
    st.settle M (st.conns.length + 2)

def HubSt.setStalled (M : Str → Str → Bool) (st : HubSt) (label : Nat) (b : Bool) : HubSt :=
  let st := { st with conns := updConn st.conns label (fun c => { c with stalled := b }) }
  st.settle M (st.conns.length + 2)

def HubSt.failNextWrite (st : HubSt) (label : Nat) : HubSt :=
  { st with conns := updConn st.conns label (fun c => { c with failNext := true }) }

/-- `Transport.Close` / `Hub.Stop`: every indexed subscriber is disconnected; later operations are rejected. -/
def HubSt.close (M : Str → Str → Bool) (st : HubSt) : HubSt :=
  if st.closed then st else
  let st := { st with closed := true,
                      conns := st.conns.map (fun (c : Conn) => if st.index.contains c.label then { c with closedOut := true } else c) }
  st.settle M (st.conns.length + 2)

/-- Stop and start again on the same database file (Bolt) / from scratch (local). -/
def HubSt.restart (M : Str → Str → Bool) (st : HubSt) : HubSt :=
  let st := st.close M
  let last := match st.db.getLast? with | some e => e.2.id | none => earliest
  { st with closed := false, index := [], epoch := st.epoch + 1,
            db := (match st.kind with | .bolt => st.db | .local => []),
            lastEventID := (match st.kind with | .bolt => last | .local => earliest) }

/-! ### histories -/

inductive HubOp where
  | publish (r : PubReq)
  | connect (label : Nat) (r : SubReq)
  | connectFail (label : Nat) (r : SubReq)   -- a registration whose AddSubscriber fails (replay error)
  | clientClose (label : Nat)
  | stall (label : Nat) (b : Bool)
  | failNext (label : Nat)
  | close
  | restart
  deriving Repr

/-- `tokP` / `tokS`: token validation under the publisher / subscriber key. -/
def HubSt.step (M : Str → Str → Bool) (tokP tokS : Str → Option Claims) (st : HubSt) : HubOp → HubSt
  | .publish r => (st.publish M tokP r).1
  | .connect l r => (st.connect M tokS l r).1
  | .connectFail l r => (st.connectFailing M tokS l r).1
  | .clientClose l => st.clientClose M l
  | .stall l b => st.setStalled M l b
  | .failNext l => st.failNextWrite l
  | .close => st.close M
  | .restart => st.restart M

def HubSt.run (M : Str → Str → Bool) (tokP tokS : Str → Option Claims) (st : HubSt) (ops : List HubOp) : HubSt :=
  ops.foldl (HubSt.step M tokP tokS) st

/-- A fresh hub. -/
def HubSt.init (cfg : HubCfg) (kind : Kind) (size cap : Nat) : HubSt :=
  { cfg := cfg, kind := kind, size := size, cap := cap }

def HubOp.connectLabel : HubOp → Option Nat
  | .connect l _ => some l
  | .connectFail l _ => some l
  | _ => none

/-- The harness gives every connection its own label. -/
def FreshLabels (ops : List HubOp) : Prop := (ops.filterMap HubOp.connectLabel).Nodup

/-- Every state reachable by a history of public operations from a fresh hub. -/
def HubSt.reach (M : Str → Str → Bool) (tokP tokS : Str → Option Claims) (cfg : HubCfg) (kind : Kind)
    (size cap : Nat) (ops : List HubOp) : HubSt :=
  HubSt.run M tokP tokS (HubSt.init cfg kind size cap) ops

/-! ### subscription API (subscription.go) -/

structure ApiResp where
  status : Nat
  lastEventID : Str
  docs : List Subscription
  deriving Repr

/-- Collection endpoints; `topic = none` for /subscriptions, `some t` for /subscriptions/{topic} (t unescaped). -/
def HubSt.apiList (M : Str → Str → Bool) (tok : Str → Option Claims) (st : HubSt) (a : AuthReq) (url : Str)
    (topic : Str) (ifNoneMatch : Str) : ApiResp :=
  if !apiAuthorized st.cfg M tok a url then { status := 401, lastEventID := [], docs := [] }
  else if ifNoneMatch == st.lastEventID then { status := 304, lastEventID := [], docs := [] }
  else
    let subs := st.index.filterMap (getConn st.conns)
    { status := 200, lastEventID := st.lastEventID,
      docs := subs.flatMap (fun c => subDocsOf st.cfg M c topic true) }

/-- Item endpoint /subscriptions/{topic}/{subscriber} (both unescaped). -/
def HubSt.apiGet (M : Str → Str → Bool) (tok : Str → Option Claims) (st : HubSt) (a : AuthReq) (url : Str)
    (topic sub : Str) (ifNoneMatch : Str) : ApiResp :=
  if !apiAuthorized st.cfg M tok a url then { status := 401, lastEventID := [], docs := [] }
  else if ifNoneMatch == st.lastEventID then { status := 304, lastEventID := [], docs := [] }
  else
    let subs := st.index.filterMap (getConn st.conns)
    let hits := subs.filter (·.sid == sub) |>.flatMap (fun c => (subDocsOf st.cfg M c topic true).filter (·.topic == topic))
    match hits with
    | d :: _ => { status := 200, lastEventID := st.lastEventID, docs := [d] }
    | [] => { status := 404, lastEventID := st.lastEventID, docs := [] }

end Mercure
