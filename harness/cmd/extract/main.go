// extract — re-reads /repo's sources on every run and regenerates the source facts the Lean
// theorems depend on (DESIGN §5.2): Mercure/Generated/Facts.lean and facts.json.
// If a shape is not recognised the fact is emitted as "unrecognised" and the Lean obligation that
// consumes it fails: a broken obligation, never a silent pass.
package main

import (
	"encoding/json"
	"fmt"
	"go/ast"
	"go/parser"
	"go/printer"
	"go/token"
	"os"
	"path/filepath"
	"regexp"
	"strconv"
	"strings"
)

type facts struct {
	MatchKeySegs         []seg             `json:"match_key_segs"`
	MatchKeyOK           bool              `json:"match_key_recognised"`
	MatchHitValid        bool              `json:"match_hit_validated"`
	MinHeaderLen         int               `json:"min_header_len"`
	MinQueryLen          int               `json:"min_query_len"`
	BearerPrefix         string            `json:"bearer_prefix"`
	CookieName           string            `json:"default_cookie_name"`
	OutBufferLength      int               `json:"out_buffer_length"`
	EscapeRune           int               `json:"sublist_escape"`
	DelimRune            int               `json:"sublist_delim"`
	SubReplacer          []string          `json:"sublist_replacer"`
	EventReplacer        []string          `json:"event_replacer"`
	EventFormats         []string          `json:"event_formats"`
	IDEscapeFn           string            `json:"id_escape_fn"`
	SysFlags             map[string]bool   `json:"sys_flags"`
	CloseWalksAll        bool              `json:"close_walks_all"`
	LastSeqAfterCommit   bool              `json:"last_seq_after_commit"`
	CleanupUnsignedGuard bool              `json:"cleanup_unsigned_guard"`
	LegacyFlags          map[string]bool   `json:"legacy_flags"`
	UpdateJSONFields     []string          `json:"update_json_fields"`
	BoltKeyShape         string            `json:"bolt_key_shape"`
	BoltValueCodec       string            `json:"bolt_value_codec"`
	Consts               map[string]string `json:"consts"`
	Errors               []string          `json:"errors"`
}

type seg struct {
	Kind string `json:"kind"` // lit | sel | topic | lenSel | lenTopic | unknown
	Lit  string `json:"lit,omitempty"`
}

var fset = token.NewFileSet()

func parse(repo, name string) *ast.File {
	f, err := parser.ParseFile(fset, filepath.Join(repo, name), nil, parser.ParseComments)
	if err != nil {
		fmt.Fprintln(os.Stderr, "extract: cannot parse", name, err)
		os.Exit(3)
	}

	return f
}

func funcDecl(f *ast.File, recv, name string) *ast.FuncDecl {
	for _, d := range f.Decls {
		fd, ok := d.(*ast.FuncDecl)
		if !ok || fd.Name.Name != name {
			continue
		}
		if recv == "" && fd.Recv == nil {
			return fd
		}
		if recv != "" && fd.Recv != nil && len(fd.Recv.List) == 1 {
			t := fd.Recv.List[0].Type
			if s, ok := t.(*ast.StarExpr); ok {
				t = s.X
			}
			if id, ok := t.(*ast.Ident); ok && id.Name == recv {
				return fd
			}
		}
	}

	return nil
}

func strLit(e ast.Expr) (string, bool) {
	bl, ok := e.(*ast.BasicLit)
	if !ok || (bl.Kind != token.STRING && bl.Kind != token.CHAR) {
		return "", false
	}
	s, err := strconv.Unquote(bl.Value)
	if err != nil {
		return "", false
	}

	return s, true
}

// flatten a chain of string concatenations
func flattenConcat(e ast.Expr) []ast.Expr {
	if p, ok := e.(*ast.ParenExpr); ok {
		return flattenConcat(p.X)
	}
	if b, ok := e.(*ast.BinaryExpr); ok && b.Op == token.ADD {
		return append(flattenConcat(b.X), flattenConcat(b.Y)...)
	}

	return []ast.Expr{e}
}

func isCall(e ast.Expr, pkg, fn string) (*ast.CallExpr, bool) {
	c, ok := e.(*ast.CallExpr)
	if !ok {
		return nil, false
	}
	if pkg == "" {
		id, ok := c.Fun.(*ast.Ident)

		return c, ok && id.Name == fn
	}
	s, ok := c.Fun.(*ast.SelectorExpr)
	if !ok || s.Sel.Name != fn {
		return nil, false
	}
	id, ok := s.X.(*ast.Ident)

	return c, ok && id.Name == pkg
}

func keySeg(e ast.Expr, selName, topicName string) seg {
	if s, ok := strLit(e); ok {
		return seg{Kind: "lit", Lit: s}
	}
	if id, ok := e.(*ast.Ident); ok {
		switch id.Name {
		case selName:
			return seg{Kind: "sel"}
		case topicName:
			return seg{Kind: "topic"}
		}
	}
	if c, ok := isCall(e, "strconv", "Itoa"); ok && len(c.Args) == 1 {
		if l, ok := isCall(c.Args[0], "", "len"); ok && len(l.Args) == 1 {
			if id, ok := l.Args[0].(*ast.Ident); ok {
				switch id.Name {
				case selName:
					return seg{Kind: "lenSel"}
				case topicName:
					return seg{Kind: "lenTopic"}
				}
			}
		}
	}

	return seg{Kind: "unknown"}
}

func (fa *facts) errf(format string, a ...any) {
	fa.Errors = append(fa.Errors, fmt.Sprintf(format, a...))
}

func (fa *facts) matchKey(repo string) {
	f := parse(repo, "topicselector.go")
	fd := funcDecl(f, "TopicSelectorStore", "match")
	if fd == nil || len(fd.Type.Params.List) == 0 {
		fa.errf("topicselector.go: method match not found")

		return
	}
	var names []string
	for _, p := range fd.Type.Params.List {
		for _, n := range p.Names {
			names = append(names, n.Name)
		}
	}
	if len(names) != 2 {
		fa.errf("topicselector.go: match: unexpected parameters %v", names)

		return
	}
	topicName, selName := names[0], names[1]
	// the key is the (single) value passed as first argument to cache.Get inside match
	var keyIdent string
	var keyExprDirect ast.Expr
	ast.Inspect(fd.Body, func(n ast.Node) bool {
		c, ok := n.(*ast.CallExpr)
		if !ok {
			return true
		}
		if s, ok := c.Fun.(*ast.SelectorExpr); ok && s.Sel.Name == "Get" && len(c.Args) == 1 {
			if id, ok := c.Args[0].(*ast.Ident); ok {
				keyIdent = id.Name
			} else {
				keyExprDirect = c.Args[0]
			}
		}

		return true
	})
	var keyExpr ast.Expr = keyExprDirect
	n := 0
	if keyIdent != "" {
		ast.Inspect(fd.Body, func(nd ast.Node) bool {
			a, ok := nd.(*ast.AssignStmt)
			if !ok || len(a.Lhs) != 1 || len(a.Rhs) != 1 {
				return true
			}
			if id, ok := a.Lhs[0].(*ast.Ident); ok && id.Name == keyIdent {
				keyExpr = a.Rhs[0]
				n++
			}

			return true
		})
	}
	if keyExpr == nil || n > 1 {
		fa.errf("topicselector.go: match: cache key expression not found (assignments: %d)", n)

		return
	}
	// is a cache hit validated against the selector?  (<entry>.<field> == topicSelector)
	ast.Inspect(fd.Body, func(nd ast.Node) bool {
		b, ok := nd.(*ast.BinaryExpr)
		if !ok || b.Op != token.EQL {
			return true
		}
		isSel := func(e ast.Expr) bool { id, ok := e.(*ast.Ident); return ok && id.Name == selName }
		isField := func(e ast.Expr) bool { _, ok := e.(*ast.SelectorExpr); return ok }
		if (isSel(b.X) && isField(b.Y)) || (isSel(b.Y) && isField(b.X)) {
			fa.MatchHitValid = true
		}

		return true
	})
	fa.MatchKeyOK = true
	for _, e := range flattenConcat(keyExpr) {
		s := keySeg(e, selName, topicName)
		if s.Kind == "unknown" {
			fa.MatchKeyOK = false
			fa.errf("topicselector.go: match: unrecognised key component at %s", fset.Position(e.Pos()))
		}
		fa.MatchKeySegs = append(fa.MatchKeySegs, s)
	}
}

// constants and simple literals
func (fa *facts) consts(repo string) {
	fa.Consts = map[string]string{}
	for _, name := range []string{"authorization.go", "localsubscriber.go", "subscriberlist.go", "hub.go", "transport.go", "bolt.go", "topicselectorlru.go", "subscription.go", "handler.go"} {
		f := parse(repo, name)
		for _, d := range f.Decls {
			gd, ok := d.(*ast.GenDecl)
			if !ok || gd.Tok != token.CONST {
				continue
			}
			for _, sp := range gd.Specs {
				vs := sp.(*ast.ValueSpec)
				for i, n := range vs.Names {
					if i < len(vs.Values) {
						fa.Consts[n.Name] = exprString(vs.Values[i])
					}
				}
			}
		}
	}
	unq := func(k string) string {
		s, err := strconv.Unquote(fa.Consts[k])
		if err != nil {
			fa.errf("const %s not a string literal: %q", k, fa.Consts[k])
		}

		return s
	}
	fa.BearerPrefix = unq("bearerPrefix")
	fa.CookieName = unq("defaultCookieName")
	if v, err := strconv.Atoi(fa.Consts["outBufferLength"]); err == nil {
		fa.OutBufferLength = v
	} else {
		fa.errf("outBufferLength not an int literal")
	}
	rn := func(k string) int {
		s, err := strconv.Unquote(fa.Consts[k])
		if err != nil || len([]rune(s)) != 1 {
			fa.errf("const %s not a rune literal: %q", k, fa.Consts[k])

			return -1
		}

		return int([]rune(s)[0])
	}
	fa.EscapeRune = rn("escape")
	fa.DelimRune = rn("delim")

	// authorize: len(authorizationHeaders[0]) < N ; len(authorizationQuery[0]) < N
	f := parse(repo, "authorization.go")
	if fd := funcDecl(f, "", "authorize"); fd != nil {
		ast.Inspect(fd.Body, func(n ast.Node) bool {
			b, ok := n.(*ast.BinaryExpr)
			if !ok || b.Op != token.LSS {
				return true
			}
			l, ok := isCall(b.X, "", "len")
			if !ok || len(l.Args) != 1 {
				return true
			}
			ix, ok := l.Args[0].(*ast.IndexExpr)
			if !ok {
				return true
			}
			id, ok := ix.X.(*ast.Ident)
			lit, ok2 := b.Y.(*ast.BasicLit)
			if !ok || !ok2 {
				return true
			}
			v, _ := strconv.Atoi(lit.Value)
			switch id.Name {
			case "authorizationHeaders":
				fa.MinHeaderLen = v
			case "authorizationQuery":
				fa.MinQueryLen = v
			}

			return true
		})
	}
	if fa.MinHeaderLen == 0 || fa.MinQueryLen == 0 {
		fa.errf("authorization.go: minimum credential lengths not found")
	}
}

func exprString(e ast.Expr) string {
	switch v := e.(type) {
	case *ast.BasicLit:
		return v.Value
	case *ast.Ident:
		return v.Name
	case *ast.CallExpr:
		var args []string
		for _, a := range v.Args {
			args = append(args, exprString(a))
		}

		return exprString(v.Fun) + "(" + strings.Join(args, ",") + ")"
	case *ast.SelectorExpr:
		return exprString(v.X) + "." + v.Sel.Name
	case *ast.BinaryExpr:
		return exprString(v.X) + v.Op.String() + exprString(v.Y)
	case *ast.ParenExpr:
		return "(" + exprString(v.X) + ")"
	case *ast.CompositeLit:
		var el []string
		for _, a := range v.Elts {
			el = append(el, exprString(a))
		}

		return exprString(v.Type) + "{" + strings.Join(el, ",") + "}"
	case *ast.ArrayType:
		return "[]" + exprString(v.Elt)
	}

	return fmt.Sprintf("<%T>", e)
}

// replacers: strings.NewReplacer(...) in subscriberlist.go (package var) and event.go (Event.String)
func (fa *facts) replacers(repo string) {
	collect := func(root ast.Node) (out []string, found bool) {
		ast.Inspect(root, func(n ast.Node) bool {
			c, ok := isCall2(n, "strings", "NewReplacer")
			if !ok {
				return true
			}
			found = true
			for _, a := range c.Args {
				out = append(out, exprString(a))
			}

			return false
		})

		return
	}
	sub, ok := collect(parse(repo, "subscriberlist.go"))
	if !ok {
		fa.errf("subscriberlist.go: strings.NewReplacer not found")
	}
	fa.SubReplacer = sub
	ev := parse(repo, "event.go")
	fd := funcDecl(ev, "Event", "String")
	if fd == nil {
		fa.errf("event.go: Event.String not found")

		return
	}
	evr, ok := collect(fd)
	if !ok {
		fa.errf("event.go: strings.NewReplacer not found")
	}
	for _, s := range evr {
		u, err := strconv.Unquote(s)
		if err != nil {
			fa.errf("event.go: replacer argument not a literal: %s", s)
		}
		fa.EventReplacer = append(fa.EventReplacer, u)
	}
	ast.Inspect(fd, func(n ast.Node) bool {
		c, ok := isCall2(n, "fmt", "Fprintf")
		if ok && len(c.Args) >= 2 {
			if s, ok := strLit(c.Args[1]); ok {
				fa.EventFormats = append(fa.EventFormats, s)
			}
		}

		return true
	})
}

func isCall2(n ast.Node, pkg, fn string) (*ast.CallExpr, bool) {
	e, ok := n.(ast.Expr)
	if !ok {
		return nil, false
	}

	return isCall(e, pkg, fn)
}

// escapeKind classifies an expression applied to the string being escaped:
//
//	url.QueryEscape(x)                                   -> "url.QueryEscape"        (space -> '+')
//	strings.ReplaceAll(url.QueryEscape(x), "+", "%20")   -> "url.QueryEscape;+=%20"  (space -> %20)
//	helper(x) where helper's body returns one of those    -> that
func escapeKind(f *ast.File, e ast.Expr, depth int) string {
	if c, ok := isCall(e, "url", "QueryEscape"); ok && len(c.Args) == 1 {
		return "url.QueryEscape"
	}
	if c, ok := isCall(e, "strings", "ReplaceAll"); ok && len(c.Args) == 3 {
		a, ok1 := strLit(c.Args[1])
		b, ok2 := strLit(c.Args[2])
		if ok1 && ok2 && a == "+" && b == "%20" && escapeKind(f, c.Args[0], depth) == "url.QueryEscape" {
			return "url.QueryEscape;+=%20"
		}
	}
	if c, ok := e.(*ast.CallExpr); ok && depth < 2 {
		if id, ok := c.Fun.(*ast.Ident); ok && len(c.Args) == 1 {
			if fd := funcDecl(f, "", id.Name); fd != nil && fd.Body != nil {
				for _, st := range fd.Body.List {
					if r, ok := st.(*ast.ReturnStmt); ok && len(r.Results) == 1 {
						return escapeKind(f, r.Results[0], depth+1)
					}
				}
			}
		}
	}

	return "unrecognised"
}

func (fa *facts) idEscape(repo string) {
	f := parse(repo, "subscriber.go")
	fd := funcDecl(f, "", "escapeTopics")
	if fd == nil {
		fa.errf("subscriber.go: escapeTopics not found")

		return
	}
	kinds := map[string]bool{}
	// the selector: what is appended to escapedTopics
	ast.Inspect(fd.Body, func(n ast.Node) bool {
		c, ok := isCall2(n, "", "append")
		if ok && len(c.Args) == 2 {
			kinds[escapeKind(f, c.Args[1], 0)] = true
		}

		return true
	})
	// the subscriber id: s.EscapedID = …(id) in NewLocalSubscriber
	lf := parse(repo, "localsubscriber.go")
	if nd := funcDecl(lf, "", "NewLocalSubscriber"); nd != nil {
		ast.Inspect(nd.Body, func(n ast.Node) bool {
			a, ok := n.(*ast.AssignStmt)
			if !ok || len(a.Lhs) != 1 || len(a.Rhs) != 1 {
				return true
			}
			if sel, ok := a.Lhs[0].(*ast.SelectorExpr); ok && sel.Sel.Name == "EscapedID" {
				kinds[escapeKind(f, a.Rhs[0], 0)] = true
			}

			return true
		})
	}
	if len(kinds) != 1 || kinds["unrecognised"] {
		fa.errf("subscriber.go/localsubscriber.go: escaping of subscription ids not recognised (%v)", kinds)
		fa.IDEscapeFn = "unrecognised"

		return
	}
	for k := range kinds {
		fa.IDEscapeFn = k
	}
}

// recvName / paramNames: the names the source gives to the receiver and the parameters — the recognisers
// below are written in terms of them, so that renaming a receiver or a parameter does not break the tie.
func recvName(fd *ast.FuncDecl) string {
	if fd.Recv != nil && len(fd.Recv.List) == 1 && len(fd.Recv.List[0].Names) == 1 {
		return fd.Recv.List[0].Names[0].Name
	}

	return "_"
}

func paramNames(fd *ast.FuncDecl) (names []string, types []string) {
	for _, p := range fd.Type.Params.List {
		for _, n := range p.Names {
			names = append(names, n.Name)
			types = append(types, exprString(p.Type))
		}
	}

	return
}

// sysFlags: which variant of the synchronisation code is in /repo (consumed by Model/Sys.lean).
func (fa *facts) sysFlags(repo string) {
	fl := map[string]bool{}
	ls := parse(repo, "localsubscriber.go")
	callsClose := func(fd *ast.FuncDecl) bool {
		found := false
		ast.Inspect(fd, func(n ast.Node) bool {
			if c, ok := isCall2(n, "", "close"); ok && len(c.Args) == 1 && exprString(c.Args[0]) == recvName(fd)+".out" {
				found = true
			}

			return true
		})

		return found
	}
	isLoadDisc := func(n ast.Node) bool {
		found := false
		ast.Inspect(n, func(x ast.Node) bool {
			if c, ok := isCall2(x, "atomic", "LoadInt32"); ok && len(c.Args) == 1 && strings.Contains(exprString2(c.Args[0]), "disconnected") {
				found = true
			}

			return true
		})

		return found
	}
	if fd := funcDecl(ls, "LocalSubscriber", "handleFullChan"); fd != nil {
		fl["closeOnOverflow"] = callsClose(fd)
	} else {
		fa.errf("localsubscriber.go: handleFullChan not found")
	}
	// Ready: a load of `disconnected` among the top-level statements after the two Lock calls and before the loop
	if fd := funcDecl(ls, "LocalSubscriber", "Ready"); fd != nil {
		locks, guard := 0, false
		for _, st := range fd.Body.List {
			if es, ok := st.(*ast.ExprStmt); ok && strings.HasSuffix(exprString(es.X), "Mutex.Lock()") {
				locks++
			}
			if _, ok := st.(*ast.RangeStmt); ok {
				break
			}
			if ifs, ok := st.(*ast.IfStmt); ok && locks == 2 && isLoadDisc(ifs.Cond) {
				guard = true
			}
		}
		fl["readyGuard"] = guard
	} else {
		fa.errf("localsubscriber.go: Ready not found")
	}
	if fd := funcDecl(ls, "LocalSubscriber", "Disconnect"); fd != nil {
		locked, recheck := false, false
		for _, st := range fd.Body.List {
			if es, ok := st.(*ast.ExprStmt); ok && strings.HasSuffix(exprString(es.X), "outMutex.Lock()") {
				locked = true
			}
			if ifs, ok := st.(*ast.IfStmt); ok && locked && isLoadDisc(ifs.Cond) {
				recheck = true
			}
		}
		fl["disconnectRecheck"] = recheck
	} else {
		fa.errf("localsubscriber.go: Disconnect not found")
	}
	lo := parse(repo, "local.go")
	if fd := funcDecl(lo, "LocalTransport", "Dispatch"); fd != nil {
		locked, under := false, false
		for _, st := range fd.Body.List {
			if es, ok := st.(*ast.ExprStmt); ok && exprString(es.X) == recvName(fd)+".Lock()" {
				locked = true
			}
			ast.Inspect(st, func(n ast.Node) bool {
				if c, ok := n.(*ast.CallExpr); ok {
					if sel, ok := c.Fun.(*ast.SelectorExpr); ok && sel.Sel.Name == "MatchAny" && locked {
						under = true
					}
				}

				return true
			})
		}
		fl["localMatchLocked"] = under
	} else {
		fa.errf("local.go: Dispatch not found")
	}
	bo := parse(repo, "bolt.go")
	if fd := funcDecl(bo, "", "NewBoltTransport"); fd != nil {
		set := false
		ast.Inspect(fd, func(n ast.Node) bool {
			if kv, ok := n.(*ast.KeyValueExpr); ok {
				if id, ok := kv.Key.(*ast.Ident); ok && id.Name == "lastSeq" {
					set = true
				}
			}
			if a, ok := n.(*ast.AssignStmt); ok && len(a.Lhs) == 1 && strings.HasSuffix(exprString(a.Lhs[0]), ".lastSeq") {
				set = true
			}

			return true
		})
		fl["lastSeqOnOpen"] = set
	} else {
		fa.errf("bolt.go: NewBoltTransport not found")
	}
	if fd := funcDecl(bo, "BoltTransport", "dispatchHistory"); fd != nil {
		src := nodeString(fd)
		toSeq := "toSeq"
		if ns, _ := paramNames(fd); len(ns) == 2 {
			toSeq = ns[1] // the high-water mark taken at registration
		}
		escape := regexp.MustCompile(`\b` + regexp.QuoteMeta(toSeq) + `\s*>\s*0`).MatchString(src)
		cut := false
		ast.Inspect(fd, func(n ast.Node) bool {
			if ifs, ok := n.(*ast.IfStmt); ok {
				if b, ok := ifs.Cond.(*ast.BinaryExpr); ok && b.Op == token.GTR && exprString(b.Y) == toSeq && len(ifs.Body.List) == 1 {
					if br, ok := ifs.Body.List[0].(*ast.BranchStmt); ok && br.Tok == token.BREAK {
						cut = true
					}
				}
			}

			return true
		})
		if cut == escape {
			fa.errf("bolt.go: dispatchHistory: cut-off shape not recognised (break-before-dispatch=%v, toSeq>0 escape=%v)", cut, escape)
		}
		fl["cutBeforeDispatch"] = cut && !escape
	} else {
		fa.errf("bolt.go: dispatchHistory not found")
	}
	fa.SysFlags = fl
	// persist: the transport's in-memory last sequence / last event id move only once the write transaction has
	// committed — no assignment to them inside the closure handed to db.Update (a failed transaction is rolled back
	// by bbolt; the model's db.Update step has no failing variant that changes the state)
	if fd := funcDecl(bo, "BoltTransport", "persist"); fd != nil {
		inside, outside := 0, 0
		var walk func(n ast.Node, inLit bool)
		walk = func(n ast.Node, inLit bool) {
			ast.Inspect(n, func(m ast.Node) bool {
				if m == n {
					return true
				}
				if fl, ok := m.(*ast.FuncLit); ok {
					walk(fl.Body, true)

					return false
				}
				if a, ok := m.(*ast.AssignStmt); ok {
					for _, l := range a.Lhs {
						if x := exprString(l); strings.HasSuffix(x, ".lastSeq") || strings.HasSuffix(x, ".lastEventID") {
							if inLit {
								inside++
							} else {
								outside++
							}
						}
					}
				}

				return true
			})
		}
		walk(fd.Body, false)
		fa.LastSeqAfterCommit = inside == 0 && outside >= 2
	} else {
		fa.errf("bolt.go: persist not found")
	}
	// Close (both transports): the walk over the subscriber list must visit every subscriber — the callback
	// given to Walk is a function literal whose every return is the constant true (Walk stops on false).
	walksAll := true
	for _, c := range []struct {
		f    *ast.File
		recv string
	}{{lo, "LocalTransport"}, {bo, "BoltTransport"}} {
		fd := funcDecl(c.f, c.recv, "Close")
		if fd == nil {
			fa.errf("%s.Close not found", c.recv)
			walksAll = false

			continue
		}
		found := false
		ast.Inspect(fd, func(n ast.Node) bool {
			call, ok := n.(*ast.CallExpr)
			if !ok {
				return true
			}
			sel, ok := call.Fun.(*ast.SelectorExpr)
			if !ok || sel.Sel.Name != "Walk" || len(call.Args) != 2 {
				return true
			}
			found = true
			lit, ok := call.Args[1].(*ast.FuncLit)
			if !ok {
				walksAll = false

				return true
			}
			rets := 0
			ast.Inspect(lit.Body, func(m ast.Node) bool {
				if r, ok := m.(*ast.ReturnStmt); ok {
					rets++
					if len(r.Results) != 1 || exprString(r.Results[0]) != "true" {
						walksAll = false
					}
				}

				return true
			})
			if rets == 0 {
				walksAll = false
			}

			return true
		})
		if !found {
			walksAll = false
		}
	}
	fa.CloseWalksAll = walksAll
	// cleanup (bolt.go): the guard is the unsigned `t.size >= lastID`, the bound `lastID - t.size`, both on
	// uint64, with no conversion to a signed type anywhere in the function (Model/Retention64.lean).
	guard := false
	if fd := funcDecl(bo, "BoltTransport", "cleanup"); fd != nil {
		src := nodeString(fd)
		size, lastID, lastIDUint := recvName(fd)+".size", "lastID", false
		if ns, ts := paramNames(fd); len(ns) == 2 {
			lastID, lastIDUint = ns[1], ts[1] == "uint64"
		}
		hasGuard, hasBound := false, false
		ast.Inspect(fd, func(n ast.Node) bool {
			if b, ok := n.(*ast.BinaryExpr); ok {
				if b.Op == token.GEQ && exprString(b.X) == size && exprString(b.Y) == lastID {
					hasGuard = true
				}
				if b.Op == token.LEQ && exprString(b.X) == lastID && exprString(b.Y) == size {
					hasGuard = true // the same unsigned comparison written the other way round
				}
				if b.Op == token.SUB && exprString(b.X) == lastID && exprString(b.Y) == size {
					hasBound = true
				}
			}

			return true
		})
		guard = hasGuard && hasBound && lastIDUint && !regexp.MustCompile(`\bint(8|16|32|64)?\(`).MatchString(src)
		if !guard {
			fa.errf("bolt.go: cleanup: guard/bound shape not recognised (guard=%v bound=%v uint64=%v)", hasGuard, hasBound, lastIDUint)
		}
	} else {
		fa.errf("bolt.go: cleanup not found")
	}
	fa.CleanupUnsignedGuard = guard
}

// legacyFlags: shape of config.go's ValidateConfig / NewHubFromViper.
func (fa *facts) legacyFlags(repo string) {
	f := parse(repo, "config.go")
	fl := map[string]bool{}
	if fd := funcDecl(f, "", "ValidateConfig"); fd != nil {
		src := nodeString(fd)
		fl["requireSubscriberKey"] = strings.Contains(src, `"subscriber_jwt_key"`) && strings.Contains(src, `"allow_anonymous"`)
	} else {
		fa.errf("config.go: ValidateConfig not found")
	}
	if fd := funcDecl(f, "", "NewHubFromViper"); fd != nil {
		// the old shape: `if d := v.GetDuration("heartbeat_interval"); d != 0 {` — a zero is replaced by the hub default
		src := nodeString(fd)
		zeroDropped := func(key string) bool {
			i := strings.Index(src, `v.GetDuration("`+key+`"); d != 0`)

			return i >= 0
		}
		fl["zeroMeansDisabled"] = !zeroDropped("heartbeat_interval") && !zeroDropped("dispatch_timeout")
		if !strings.Contains(src, `"heartbeat_interval"`) || !strings.Contains(src, `"dispatch_timeout"`) {
			fa.errf("config.go: NewHubFromViper: duration options not recognised")
		}
	} else {
		fa.errf("config.go: NewHubFromViper not found")
	}
	fa.LegacyFlags = fl
}

// structFields: the fields of a struct type as encoding/json sees them, in order: "Name:type" (plus "|tag" when
// the field carries a struct tag); an embedded struct of the same package is flattened in place.
func structFields(files []*ast.File, name string, depth int) ([]string, bool) {
	for _, f := range files {
		for _, d := range f.Decls {
			gd, ok := d.(*ast.GenDecl)
			if !ok {
				continue
			}
			for _, sp := range gd.Specs {
				ts, ok := sp.(*ast.TypeSpec)
				if !ok || ts.Name.Name != name {
					continue
				}
				st, ok := ts.Type.(*ast.StructType)
				if !ok {
					return nil, false
				}
				var out []string
				for _, fl := range st.Fields.List {
					tag := ""
					if fl.Tag != nil {
						tag = "|" + fl.Tag.Value
					}
					if len(fl.Names) == 0 { // embedded
						id, ok := fl.Type.(*ast.Ident)
						if !ok || depth > 2 || tag != "" {
							return nil, false
						}
						sub, ok := structFields(files, id.Name, depth+1)
						if !ok {
							return nil, false
						}
						out = append(out, sub...)

						continue
					}
					for _, n := range fl.Names {
						if !n.IsExported() {
							continue
						}
						out = append(out, n.Name+":"+exprString2(fl.Type)+tag)
					}
				}

				return out, true
			}
		}
	}

	return nil, false
}

var (
	reKeyPut  = regexp.MustCompile(`make\(\[\]byte, 8\)[\s\S]*binary\.BigEndian\.PutUint64\((\w+), (\w+)\)[\s\S]*bytes\.Join\(\[\]\[\]byte\{(\w+), \[\]byte\((\w+)\)\}, \[\]byte\{\}\)`)
	reKeyRead = regexp.MustCompile(`string\((\w+)\[8:\]\)[\s\S]*binary\.BigEndian\.Uint64\((\w+)\[:8\]\)`)
)

// storeFacts: the layout of what the Bolt transport stores — the JSON shape of Update (field list, tags), the key
// construction in persist and the way dispatchHistory / getDBLastEventID / cleanup read keys back.
func (fa *facts) storeFacts(repo string) {
	files := []*ast.File{parse(repo, "update.go"), parse(repo, "event.go")}
	fields, ok := structFields(files, "Update", 0)
	if !ok {
		fa.errf("update.go: struct Update not recognised")
	}
	fa.UpdateJSONFields = fields
	// a custom (Un)MarshalJSON on Update or Event would bypass the field list
	for _, f := range files {
		for _, d := range f.Decls {
			if fd, ok := d.(*ast.FuncDecl); ok && (fd.Name.Name == "MarshalJSON" || fd.Name.Name == "UnmarshalJSON" || fd.Name.Name == "MarshalText" || fd.Name.Name == "UnmarshalText") {
				fa.UpdateJSONFields = append(fa.UpdateJSONFields, "custom:"+fd.Name.Name)
			}
		}
	}
	b := parse(repo, "bolt.go")
	fa.BoltKeyShape = "unrecognised"
	if fd := funcDecl(b, "BoltTransport", "persist"); fd != nil {
		if m := reKeyPut.FindStringSubmatch(nodeString(fd)); m != nil && m[1] == m[3] {
			fa.BoltKeyShape = "be64(seq)||id"
		}
	}
	for _, fn := range []string{"dispatchHistory"} {
		if fd := funcDecl(b, "BoltTransport", fn); fd == nil || !reKeyRead.MatchString(nodeString(fd)) {
			fa.BoltKeyShape = "unrecognised-read:" + fn
		}
	}
	if fd := funcDecl(b, "", "getDBLastEventID"); fd == nil || !regexp.MustCompile(`string\(\w+\[8:\]\)`).MatchString(nodeString(fd)) {
		fa.BoltKeyShape = "unrecognised-read:getDBLastEventID"
	}
	fa.BoltValueCodec = "unrecognised"
	d, h := funcDecl(b, "BoltTransport", "Dispatch"), funcDecl(b, "BoltTransport", "dispatchHistory")
	if d != nil && h != nil && regexp.MustCompile(`json\.Marshal\(\*\w+\)`).MatchString(nodeString(d)) && regexp.MustCompile(`json\.Unmarshal\(\w+, &\w+\)`).MatchString(nodeString(h)) {
		fa.BoltValueCodec = "encoding/json"
	}
}

func exprString2(e ast.Expr) string {
	if u, ok := e.(*ast.UnaryExpr); ok {
		return "&" + exprString(u.X)
	}

	return exprString(e)
}

func nodeString(n ast.Node) string {
	var b strings.Builder
	printer.Fprint(&b, fset, n)

	return b.String()
}

func leanStr(s string) string {
	// a Lean `List Char` literal built from code points (robust for any scalar)
	var parts []string
	for _, r := range s {
		parts = append(parts, fmt.Sprintf("Char.ofNat %d", r))
	}

	return "[" + strings.Join(parts, ", ") + "]"
}

func leanStrList(l []string) string {
	var parts []string
	for _, s := range l {
		parts = append(parts, leanStr(s))
	}

	return "[" + strings.Join(parts, ", ") + "]"
}

func (fa *facts) lean() string {
	var b strings.Builder
	b.WriteString("import Mercure.Model.Selector\nimport Mercure.Model.Sys\nimport Mercure.Model.Config\n/- GENERATED by /verif/harness/cmd/extract from /repo on every run — do not edit. -/\nnamespace Mercure.Facts\n")
	var segs []string
	for _, s := range fa.MatchKeySegs {
		switch s.Kind {
		case "lit":
			segs = append(segs, ".lit "+leanStr(s.Lit))
		case "unknown":
			segs = append(segs, ".lit []")
		default:
			segs = append(segs, "."+s.Kind)
		}
	}
	fmt.Fprintf(&b, "def matchKeyRecognised : Bool := %v\n", fa.MatchKeyOK)
	fmt.Fprintf(&b, "def matchHitValidated : Bool := %v\n", fa.MatchHitValid)
	fmt.Fprintf(&b, "def matchKeySegs : List Seg := [%s]\n", strings.Join(segs, ", "))
	fmt.Fprintf(&b, "def minHeaderLen : Nat := %d\n", fa.MinHeaderLen)
	fmt.Fprintf(&b, "def minQueryLen : Nat := %d\n", fa.MinQueryLen)
	fmt.Fprintf(&b, "def bearerPrefix : List Char := %s\n", leanStr(fa.BearerPrefix))
	fmt.Fprintf(&b, "def defaultCookieName : List Char := %s\n", leanStr(fa.CookieName))
	fmt.Fprintf(&b, "def outBufferLength : Nat := %d\n", fa.OutBufferLength)
	fmt.Fprintf(&b, "def sublistEscape : Nat := %d\n", max(fa.EscapeRune, 0))
	fmt.Fprintf(&b, "def sublistDelim : Nat := %d\n", max(fa.DelimRune, 0))
	fmt.Fprintf(&b, "def sublistReplacer : List String := %s\n", goStrList(fa.SubReplacer))
	fmt.Fprintf(&b, "def eventReplacer : List (List Char) := %s\n", leanStrList(fa.EventReplacer))
	fmt.Fprintf(&b, "def eventFormats : List (List Char) := %s\n", leanStrList(fa.EventFormats))
	fmt.Fprintf(&b, "def idEscapeFn : String := %q\n", fa.IDEscapeFn)
	fmt.Fprintf(&b, "def sysFlags : Mercure.Sys.Flags := ⟨%v, %v, %v, %v, %v, %v⟩\n", fa.SysFlags["closeOnOverflow"], fa.SysFlags["readyGuard"],
		fa.SysFlags["disconnectRecheck"], fa.SysFlags["localMatchLocked"], fa.SysFlags["lastSeqOnOpen"], fa.SysFlags["cutBeforeDispatch"])
	fmt.Fprintf(&b, "def closeWalksAll : Bool := %v\n", fa.CloseWalksAll)
	fmt.Fprintf(&b, "/-- persist assigns lastSeq / lastEventID only after the write transaction has committed -/\ndef lastSeqAfterCommit : Bool := %v\n", fa.LastSeqAfterCommit)
	fmt.Fprintf(&b, "def cleanupUnsignedGuard : Bool := %v\n", fa.CleanupUnsignedGuard)
	fmt.Fprintf(&b, "def legacyFlags : Mercure.Config.LegacyFlags := ⟨%v, %v⟩\n", fa.LegacyFlags["requireSubscriberKey"], fa.LegacyFlags["zeroMeansDisabled"])
	fmt.Fprintf(&b, "def updateJSONFields : List String := %s\n", goStrList(fa.UpdateJSONFields))
	var names []string
	for _, f := range fa.UpdateJSONFields {
		names = append(names, strings.SplitN(f, ":", 2)[0])
	}
	fmt.Fprintf(&b, "def updateJSONNames : List String := %s\n", goStrList(names))
	fmt.Fprintf(&b, "def boltKeyShape : String := %q\n", fa.BoltKeyShape)
	fmt.Fprintf(&b, "def boltValueCodec : String := %q\n", fa.BoltValueCodec)
	fmt.Fprintf(&b, "def extractionErrors : Nat := %d\n", len(fa.Errors))
	b.WriteString("end Mercure.Facts\n")

	return b.String()
}

func goStrList(l []string) string {
	var parts []string
	for _, s := range l {
		parts = append(parts, strconv.Quote(s))
	}

	return "[" + strings.Join(parts, ", ") + "]"
}

func main() {
	repo := "/repo"
	if len(os.Args) < 3 {
		fmt.Fprintln(os.Stderr, "usage: extract <Facts.lean> <facts.json> [repo]")
		os.Exit(2)
	}
	if len(os.Args) > 3 {
		repo = os.Args[3]
	}
	fa := &facts{}
	fa.matchKey(repo)
	fa.consts(repo)
	fa.replacers(repo)
	fa.idEscape(repo)
	fa.sysFlags(repo)
	fa.legacyFlags(repo)
	fa.storeFacts(repo)
	if fa.Errors == nil {
		fa.Errors = []string{}
	}
	lean := fa.lean()
	// only rewrite when changed, so that unchanged facts keep lake's cached oleans
	if old, err := os.ReadFile(os.Args[1]); err != nil || string(old) != lean {
		if err := os.WriteFile(os.Args[1], []byte(lean), 0o644); err != nil {
			panic(err)
		}
	}
	j, _ := json.MarshalIndent(fa, "", " ")
	if err := os.WriteFile(os.Args[2], j, 0o644); err != nil {
		panic(err)
	}
	for _, e := range fa.Errors {
		fmt.Fprintln(os.Stderr, "extract:", e)
	}
}
