import Mercure.Lemmas.Hub
/-
  C01 — Private updates reach only subscribers authorized for one of their topics.
  Over every history of public operations (publish / connect with or without replay / client
  close / stalled or failing writer / hub close / restart) on both transports.
  `c.enq` is the ghost log fed by *every* enqueue site: live fan-out, history replay, subscription events.
-/
namespace Mercure.C01
open Mercure

variable (M : Str → Str → Bool) (tokP tokS : Str → Option Claims)
variable (cfg : HubCfg) (kind : Kind) (size cap : Nat)

/-- Everything ever handed to a connection matched its subscription and, when private, its claims. -/
theorem delivered_only_if_allowed (ops : List HubOp) :
    ∀ c ∈ (HubSt.reach M tokP tokS cfg kind size cap ops).conns, ∀ u ∈ c.enq,
      matchTopics M c.sels c.allowed u.topics u.priv = true :=
  Mercure.reach_enq_allowed M tokP tokS cfg kind size cap ops

/-- What is written to a stream (or buffered, or in flight) was handed to that connection. -/
theorem written_was_enqueued (ops : List HubOp) :
    ∀ c ∈ (HubSt.reach M tokP tokS cfg kind size cap ops).conns,
      ∀ u, (u ∈ c.written ∨ u ∈ c.out ∨ c.inflight = some u) → u ∈ c.enq :=
  Mercure.reach_written_enq M tokP tokS cfg kind size cap ops

/-- With the meaning of `matchTopics` (C05): a private update reaches a connection only if one of
    its topics matches one of the connection's authorised selectors. -/
theorem private_needs_authorisation (ops : List HubOp) :
    ∀ c ∈ (HubSt.reach M tokP tokS cfg kind size cap ops).conns, ∀ u ∈ c.enq, u.priv = true →
      ∃ t ∈ u.topics, ∃ x ∈ c.allowed, M t x = true := by
  intro c hc u hu hp
  have h := delivered_only_if_allowed M tokP tokS cfg kind size cap ops c hc u hu
  exact Mercure.matchTopics_private_auth M _ _ _ h hp

/-- Anonymous subscribers (no authorised selectors) never receive a private update. -/
theorem anonymous_never_private (ops : List HubOp) :
    ∀ c ∈ (HubSt.reach M tokP tokS cfg kind size cap ops).conns, c.allowed = [] →
      ∀ u ∈ c.enq, u.priv = false := by
  intro c hc ha u hu
  cases hp : u.priv with
  | false => rfl
  | true =>
    obtain ⟨t, _, x, hx, _⟩ := private_needs_authorisation M tokP tokS cfg kind size cap ops c hc u hu hp
    rw [ha] at hx; cases hx

/-- The authorised selectors of a connection are exactly the `mercure.subscribe` claim of a token
    validated under the subscriber key — or nothing. -/
theorem allowed_from_validated_token (ops : List HubOp) :
    ∀ c ∈ (HubSt.reach M tokP tokS cfg kind size cap ops).conns,
      c.allowed = [] ∨ ∃ s cl, tokS s = some cl ∧ c.allowed = cl.mercure.subscribe.getD [] :=
  Mercure.reach_allowed_token M tokP tokS cfg kind size cap ops

/-- Subscription events are always private updates. -/
theorem subscription_events_private (s : Subscription) : (subscriptionUpdate s).priv = true := rfl

end Mercure.C01

#print axioms Mercure.C01.delivered_only_if_allowed
#print axioms Mercure.C01.written_was_enqueued
#print axioms Mercure.C01.private_needs_authorisation
#print axioms Mercure.C01.anonymous_never_private
#print axioms Mercure.C01.allowed_from_validated_token
#print axioms Mercure.C01.subscription_events_private
