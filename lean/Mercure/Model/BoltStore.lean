import Mercure.Model.Json
import Mercure.Model.Retention
/-
  Mercure.Model.BoltStore — bolt.go at the level of the bytes in the bucket.

  The rest of the model (`Hub`, `Sys`, `Retention`) sees the history as `List (Nat × Update)`:
  (sequence number, update), ascending. The code sees a bbolt bucket: byte-string keys kept in
  `bytes.Compare` order, byte-string values;
      key   = 8-byte big-endian sequence number ‖ update id          (persist)
      value = json.Marshal(*update)                                   (Dispatch)
  and reads the sequence back with `binary.BigEndian.Uint64(k[:8])`, the id with `string(k[8:])`
  (dispatchHistory, getDBLastEventID, cleanup). This module is that byte-level machine;
  `Lemmas/BoltStore` proves that it refines the abstract one (`abs`), which is what entitles the other
  theorems to talk about sequence numbers and updates.

  bbolt itself (B+tree, pages, transactions) is a parameter: a bucket is its sorted key/value list, a
  cursor walks it in key order, `Put` inserts in order, `Delete` removes — the documented contract,
  exercised for real by the `store`, `retention` and `crash` families.
-/
namespace Mercure.BoltStore

abbrev Bytes := List UInt8

/-- `binary.BigEndian.PutUint64(prefix, seq)` (seq taken modulo 2^64, as the `uint64` it is) -/
def be64 (n : Nat) : Bytes :=
  [UInt8.ofNat (n / 2 ^ 56 % 256), UInt8.ofNat (n / 2 ^ 48 % 256), UInt8.ofNat (n / 2 ^ 40 % 256),
   UInt8.ofNat (n / 2 ^ 32 % 256), UInt8.ofNat (n / 2 ^ 24 % 256), UInt8.ofNat (n / 2 ^ 16 % 256),
   UInt8.ofNat (n / 2 ^ 8 % 256), UInt8.ofNat (n % 256)]

/-- `binary.BigEndian.Uint64(k[:8])` (Go panics on a shorter key; every key the hub writes has ≥ 8 bytes) -/
def be64Val (k : Bytes) : Nat := (k.take 8).foldl (fun acc b => acc * 256 + b.toNat) 0

/-- `bytes.Compare(a, b) < 0` — the order bbolt keeps keys in -/
def bytesLt : Bytes → Bytes → Bool
  | [], [] => false
  | [], _ :: _ => true
  | _ :: _, [] => false
  | a :: as, b :: bs => if a < b then true else if b < a then false else bytesLt as bs

/-- `bytes.Join([][]byte{prefix, []byte(updateID)}, []byte{})` -/
def mkKey (seq : Nat) (id : Str) : Bytes := be64 seq ++ utf8Bytes id

/-- `k[8:]` -/
def keyIdBytes (k : Bytes) : Bytes := k.drop 8

/-- A bucket: entries in key order. -/
abbrev Bucket := List (Bytes × Str)

/-- `bucket.Put(key, value)`: insert in key order, replacing an equal key. -/
def put (k : Bytes) (v : Str) : Bucket → Bucket
  | [] => [(k, v)]
  | e :: es =>
    if bytesLt k e.1 then (k, v) :: e :: es
    else if bytesLt e.1 k then e :: put k v es
    else (k, v) :: es

/-- `cleanup`'s loop: `for k := c.First(); k != nil && Uint64(k[:8]) <= removeUntil; k = c.First() { Delete(k) }` -/
def deleteWhileLe (removeUntil : Nat) : Bucket → Bucket
  | [] => []
  | e :: es => if be64Val e.1 ≤ removeUntil then deleteWhileLe removeUntil es else e :: es

/-- `cleanup(bucket, lastID)`; `coin = true`: the probabilistic test let the purge run. -/
def cleanup (size : Nat) (coin : Bool) (lastID : Nat) (b : Bucket) : Bucket :=
  if size == 0 || size ≥ lastID || !coin then b else deleteWhileLe (lastID - size) b

structure St where
  bucket : Bucket := []
  seq    : Nat := 0          -- bucket.Sequence()
  deriving Repr

/-- `persist` inside `db.Update`: NextSequence, Put, cleanup. -/
def persist (size : Nat) (debug : Bool) (st : St) (cu : Bool × Update) : St :=
  let seq := st.seq + 1
  { seq := seq, bucket := cleanup size cu.1 seq (put (mkKey seq cu.2.id) (Json.update debug cu.2) st.bucket) }

/-- `getDBLastEventID`: the bucket sequence and `string(k[8:])` of the last key (as bytes). -/
def lastEventIdBytes (st : St) : Option Bytes := st.bucket.getLast?.map (fun e => keyIdBytes e.1)

/-- The scan of `dispatchHistory` up to the point where matching and handing over start: the response
    id (bytes; `none` = "earliest") and the stored values to decode, in order, cut at `toSeq`.
    `req = none` stands for `EarliestLastEventID`. -/
def scan (req : Option Bytes) (toSeq : Nat) (b : Bucket) : Option Bytes × List Str :=
  let rec skip : Bucket → Option Bytes → Option Bytes × Bucket
    | [], last => (last, [])
    | e :: es, _ => if some (keyIdBytes e.1) == req then (some (keyIdBytes e.1), es) else skip es (some (keyIdBytes e.1))
  let (resp, todo) := match req with
    | none => (none, b)
    | some _ => skip b none
  (resp, (todo.takeWhile (fun e => be64Val e.1 ≤ toSeq)).map (·.2))

/-- Decode the values of a scan; `none` = some entry does not decode (dispatchHistory returns an error). -/
def decodeAll : List Str → Option (List Update)
  | [] => some []
  | v :: vs =>
    match Json.parseUpdate v, decodeAll vs with
    | some (_, u), some us => some (u :: us)
    | _, _ => none

/-! ### the abstraction to the history the other modules use -/

/-- One entry read the way the code reads it. -/
def absEntry (e : Bytes × Str) : Option (Nat × Update) :=
  (Json.parseUpdate e.2).map (fun du => (be64Val e.1, du.2))

def abs : Bucket → Option (List (Nat × Update))
  | [] => some []
  | e :: es =>
    match absEntry e, abs es with
    | some x, some xs => some (x :: xs)
    | _, _ => none

/-- What the hub wrote: every entry is `mkKey seq u.id ↦ Json.update debug u` with seq < 2^64, ascending. -/
def WellFormed (debug : Bool) (b : Bucket) (db : List (Nat × Update)) : Prop :=
  b = db.map (fun e => (mkKey e.1 e.2.id, Json.update debug e.2)) ∧
  db.Pairwise (fun x y => x.1 < y.1) ∧ ∀ e ∈ db, e.1 < 2 ^ 64

end Mercure.BoltStore
