import Mercure.Model.Basic
/-
  Mercure.Model.Timed — the connection loop of `SubscribeHandler` (subscribe.go:96-155,
  getWriteDeadline, write, setDispatchWriteDeadline) as a timed automaton under a virtual clock.
  Times are milliseconds since the connection was accepted (t0 = 0); 0 for a timeout = disabled.

  Same-instant races (two timers, or a timer and an arrival, due at the same millisecond) are
  resolved by Go's `select` at random: the model takes the resolution as a parameter (`ch`), the
  theorems hold for every resolution, and the correspondence accepts any of them (`runAll`).
-/
namespace Mercure.Timed

structure Cfg where
  wt  : Nat                 -- write timeout (maximum duration of the connection)
  dt  : Nat                 -- dispatch timeout
  hb  : Nat                 -- heartbeat interval
  exp : Option Nat          -- expiry of the subscriber's token (ms after t0), if any
  deriving DecidableEq, Repr

/-- `getWriteDeadline`: the earlier of t0 + wt and the token expiry; `none` = no deadline. -/
def Cfg.deadline (c : Cfg) : Option Nat :=
  let d : Option Nat := if c.wt != 0 then some c.wt else none
  match c.exp, d with
  | some e, some d => some (min e d)
  | some e, none => some e
  | none, d => d

inductive Ev where
  | comment                 -- ":\n" written (the initial one and the heartbeats)
  | event (id : Nat)        -- an update written
  | failed                  -- a write attempt that failed (deadline passed)
  | selfClose               -- the hub ended the connection (disconnection timer)
  | clientClose             -- the request context was cancelled
  | endWrite                -- the handler returned because a write failed
  deriving DecidableEq, Repr

structure St where
  hbDue   : Option Nat      -- when the heartbeat timer fires
  discDue : Option Nat      -- when the disconnection timer fires
  trace   : List (Nat × Ev) := []   -- reversed
  done    : Bool := false
  deriving Repr

/-- A write attempted at time `t` succeeds iff no deadline is armed or t is strictly before it.
    During the write the armed deadline is min(wd, t + dt) (or wd when dt = 0 or there is no wd:
    `setDispatchWriteDeadline` returns early when `now + dt` is after a zero deadline). -/
def writeOk (c : Cfg) (t : Nat) : Bool :=
  match c.deadline with
  | none => true
  | some d => t < d

def St.write (c : Cfg) (s : St) (t : Nat) (e : Ev) (rearm : Bool) : St :=
  if writeOk c t then
    { s with trace := (t, e) :: s.trace, hbDue := if c.hb != 0 && rearm then some (t + c.hb) else s.hbDue }
  else { s with trace := (t, .endWrite) :: (t, .failed) :: s.trace, done := true }

/-- The state right after `registerSubscriber`: headers and the first comment are written at t0
    (before the controller exists: no deadline applies), timers armed. -/
def init (c : Cfg) : St :=
  { hbDue := if c.hb != 0 then some c.hb else none,
    discDue := if c.wt != 0 then some ((c.deadline.getD 0) - c.dt) else none,
    trace := [(0, .comment)] }

def optLe (a : Option Nat) (t : Nat) : Bool := match a with | some x => x ≤ t | none => false

/-! ### `select` among the cases that are ready

  At the instant `t` (the earliest instant at which anything is due) several cases of the `select` in
  `SubscribeHandler` can be ready at once: the request context, the disconnection timer, the heartbeat
  timer, the subscriber's channel. Go picks one of the ready cases at random. The model takes that
  choice as a parameter: a list of numbers `ch`, one consumed per iteration, indexing (modulo) into the
  list of ready cases in the order close, disconnection, heartbeat, arrival. With `ch = []` every choice
  is 0: the first ready case in that order (the fixed order of the earlier version of this model).

  Go ≥ 1.23 timer semantics (go.mod's language version): a tick that has not been received yet is
  discarded by `Stop`, which then returns true — so an arrival chosen while the heartbeat tick is also
  ready simply re-arms the timer (`hbDue := t + hb`), exactly what `St.write … rearm` does. -/

inductive Kind where
  | close | disc | hb | arr
  deriving DecidableEq, Repr

def arrReady (arr : List (Nat × Nat)) (t : Nat) : Bool :=
  match arr with
  | (ta, _) :: _ => ta ≤ t
  | [] => false

def ready (close : Option Nat) (s : St) (arr : List (Nat × Nat)) (t : Nat) : List Kind :=
  (if optLe close t then [Kind.close] else []) ++ (if optLe s.discDue t then [Kind.disc] else []) ++
  (if optLe s.hbDue t then [Kind.hb] else []) ++ (if arrReady arr t then [Kind.arr] else [])

def pick (ks : List Kind) (n : Nat) : Option Kind :=
  if ks.length = 0 then none else ks[n % ks.length]?

/-- The earliest instant at which something is due. -/
def nextInstant (close : Option Nat) (s : St) (arr : List (Nat × Nat)) : Option Nat :=
  (s.discDue.toList ++ s.hbDue.toList ++ (arr.head?.map (·.1)).toList ++ close.toList).foldl
    (fun m x => match m with | none => some x | some y => some (min x y)) (none : Option Nat)

/-- What choosing the ready case `k` at instant `t` does: `none` = the handler has returned (final state),
    `some (s', arr')` = the loop goes on. -/
def fire (c : Cfg) (s : St) (arr : List (Nat × Nat)) (t : Nat) : Kind → St × Option (List (Nat × Nat))
  | .close => ({ s with trace := (t, .clientClose) :: s.trace, done := true }, none)
  | .disc => ({ s with trace := (t, .selfClose) :: s.trace, done := true }, none)
  | .hb => (s.write c t .comment true, some arr)
  | .arr => match arr with
    | (_, id) :: rest => (s.write c t (.event id) true, some rest)
    | [] => (s, none)

/-- Run the loop against arrivals (time, id) in non-decreasing time order, an optional client close
    time, up to `horizon`, under the choices `ch`. `fuel` bounds the number of loop iterations. -/
def loop (c : Cfg) (close : Option Nat) (horizon : Nat) : Nat → St → List (Nat × Nat) → List Nat → St
  | 0, s, _, _ => s
  | fuel + 1, s, arr, ch =>
    if s.done then s else
    match nextInstant close s arr with
    | none => s
    | some t =>
      if t > horizon then s
      else match pick (ready close s arr t) (ch.headD 0) with
        | none => s
        | some k =>
          match fire c s arr t k with
          | (s', none) => s'
          | (s', some arr') => loop c close horizon fuel s' arr' ch.tail

def fuelFor (c : Cfg) (arr : List (Nat × Nat)) (horizon : Nat) : Nat :=
  arr.length + (if c.hb != 0 then horizon / c.hb else 0) + 4

/-- The trace under the choices `ch`. -/
def runCh (c : Cfg) (arr : List (Nat × Nat)) (close : Option Nat) (horizon : Nat) (ch : List Nat) : List (Nat × Ev) :=
  (loop c close horizon (fuelFor c arr horizon) (init c) arr ch).trace.reverse

/-- The trace when every tie is resolved in the order close < disconnection < heartbeat < arrival. -/
def run (c : Cfg) (arr : List (Nat × Nat)) (close : Option Nat) (horizon : Nat) : List (Nat × Ev) :=
  runCh c arr close horizon []

/-- Every final state reachable under some resolution of the ties (branches only where ≥ 2 cases are ready). -/
def loopAll (c : Cfg) (close : Option Nat) (horizon : Nat) : Nat → St → List (Nat × Nat) → List St
  | 0, s, _ => [s]
  | fuel + 1, s, arr =>
    if s.done then [s] else
    match nextInstant close s arr with
    | none => [s]
    | some t =>
      if t > horizon then [s]
      else match ready close s arr t with
        | [] => [s]
        | ks => ks.flatMap fun k =>
          match fire c s arr t k with
          | (s', none) => [s']
          | (s', some arr') => loopAll c close horizon fuel s' arr'

/-- All traces the handler can produce, one per resolution of the ties (the acceptor of the correspondence). -/
def runAll (c : Cfg) (arr : List (Nat × Nat)) (close : Option Nat) (horizon : Nat) : List (List (Nat × Ev)) :=
  (loopAll c close horizon (fuelFor c arr horizon) (init c) arr).map (·.trace.reverse)

end Mercure.Timed
