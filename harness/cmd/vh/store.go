package main

import (
	"encoding/hex"
	"encoding/json"
	"fmt"
	"os"
	"strings"
	"unicode/utf16"

	"verifharness/pkg/h"

	"github.com/dunglas/mercure"
)

func init() { register("store", "C12", runStore) }

// store — bolt.go at the level of the bytes in the bucket (Model/BoltStore + Model/Json):
// every publication's key and value are read back raw and must be byte-identical to the model's;
// history scans (dispatchHistory) for requested ids that are stored ids, proper suffixes / prefixes of
// stored ids, duplicates, "earliest", unknown; getDBLastEventID after close+reopen; and json.Unmarshal
// vs the model's decoder on re-spelt values (every escape JSON allows).

type stUpd struct {
	ID      string   `json:"id"`
	Topics  []string `json:"topics"`
	Private bool     `json:"private"`
	Data    string   `json:"data"`
	Type    string   `json:"type"`
	Retry   uint64   `json:"retry"`
}

type stOp struct {
	Op  string `json:"op"` // pub | pubfail | scan | restart | dec
	U   stUpd  `json:"u,omitempty"`
	Req string `json:"req,omitempty"`
	Raw string `json:"raw,omitempty"` // dec: a re-spelt stored value
}

type stCase struct {
	Size  uint64  `json:"size"`
	Freq  float64 `json:"cleanup_frequency"`
	Debug bool    `json:"debug"`
	Ops   []stOp  `json:"ops"`
	// CorruptAtEnd: after the operations the newest stored value is made undecodable (what another hub version or a
	// damaged page leaves behind) and the history is scanned from every stored id before it
	CorruptAtEnd bool `json:"corrupt_at_end,omitempty"`
}

func showUpdFull(u *mercure.Update) string {
	return fmt.Sprintf("%s/%s/%s/%s/%s/%d", h.Hex(u.ID), h.HexList(u.Topics), h.B(u.Private), h.Hex(u.Data), h.Hex(u.Type), u.Retry)
}

var storeAtoms = []string{"a", "b", "1", "7", "-", "/", "é", "日本", "😀", "\"", "\\", "/", "<", ">", "&", " ", " ", "\x00", "\x01", "\b", "\f", "\n", "\r", "\t", "\x1f", "\x7f", " ", "{", "}", ":", ",", "[", "]", "null", "true", "\\u0041", "\\n", "earliest", "�", "\U0010ffff", "퟿", ""}

func storeText(r *h.Rand, max int) string {
	n := r.Intn(max + 1)
	var b strings.Builder
	for i := 0; i < n; i++ {
		b.WriteString(h.Pick(r, storeAtoms))
	}

	return b.String()
}

// respell rewrites the string literals of a stored JSON value with other legal spellings of the same characters.
func respell(r *h.Rand, v []byte) string {
	var out strings.Builder
	in, key, depth := false, false, 0
	prev := byte(0)
	s := string(v)
	for i := 0; i < len(s); {
		c := s[i]
		if !in {
			out.WriteByte(c)
			switch c {
			case '"':
				in = true
				key = prev == '{' || (prev == ',' && depth == 0) // object keys keep their spelling (the model reads the encoder's layout)
			case '[':
				depth++
			case ']':
				depth--
			}
			prev = c
			i++

			continue
		}
		if key && c != '"' {
			out.WriteByte(c)
			i++

			continue
		}
		if c == '"' {
			in = false
			out.WriteByte(c)
			i++

			continue
		}
		if c == '\\' {
			// keep an existing escape as it is (\uXXXX: 6 bytes, others: 2)
			if s[i+1] == 'u' {
				out.WriteString(s[i : i+6])
				i += 6
			} else {
				out.WriteString(s[i : i+2])
				i += 2
			}

			continue
		}
		// one rune
		var ru rune
		var sz int
		for sz, ru = range s[i:] {
			if sz > 0 {
				break
			}
		}
		rs := []rune(s[i:])
		ru = rs[0]
		sz = len(string(ru))
		switch r.Intn(4) {
		case 0:
			if ru >= 0x10000 {
				a, b := utf16.EncodeRune(ru)
				fmt.Fprintf(&out, "\\u%04x\\u%04X", a, b)
			} else {
				fmt.Fprintf(&out, "\\u%04X", ru)
			}
		case 1:
			if ru == '/' {
				out.WriteString("\\/")
			} else {
				out.WriteString(string(ru))
			}
		default:
			out.WriteString(string(ru))
		}
		i += sz
	}

	return out.String()
}

func runStoreCase(c *h.Ctx, r *h.Report, cs stCase) {
	dir := scratchDir()
	defer os.RemoveAll(dir)
	open := func() *mercure.BoltTransport {
		t, err := mercure.NewBoltTransport(zapNop(), dir+"/h.db", "", cs.Size, cs.Freq)
		if err != nil {
			panic(err)
		}

		return t
	}
	viol := func(key, what string) {
		r.Violate(h.Violation{Key: key, What: what, Replay: map[string]any{"family": "store", "case": cs}})
	}
	t := open()
	defer func() { t.Close() }()
	tss, _ := mercure.NewTopicSelectorStoreLRU(0, 0)
	// a live subscriber ("*", authorised for everything) connected all along: what it is handed must be exactly the
	// accepted updates that have a topic, once each, in order (implementation-only oracle)
	newWatch := func() *mercure.LocalSubscriber {
		w := mercure.NewLocalSubscriber("", zapNop(), tss)
		w.SetTopics([]string{"*"}, []string{"*"})
		if err := t.AddSubscriber(w); err != nil {
			panic(err)
		}

		return w
	}
	watch := newWatch()
	checkWatch := func(want []string, what string) {
		var got []string
		for _, u := range drain(watch) {
			got = append(got, u.ID)
		}
		if strings.Join(got, "\x00") != strings.Join(want, "\x00") {
			key := "C06:live-subscriber-not-handed-exactly-the-accepted-update"
			if len(want) == 0 {
				key = "C09:update-handed-to-a-subscriber-although-it-was-not-stored"
			}
			viol(key, fmt.Sprintf("%s: a connected '*' subscriber was handed %q, expected %q", what, got, want))
			if len(want) == 0 {
				viol("C06:live-subscriber-not-handed-exactly-the-accepted-update", fmt.Sprintf("%s: a connected '*' subscriber was handed %q, expected %q", what, got, want))
			}
		}
	}
	lines := []string{h.Line("store.new", fmt.Sprint(cs.Size), h.B(cs.Debug))}
	impl := []string{"ok"}
	type ent struct {
		seq uint64
		u   stUpd
	}
	var kept []ent // the harness's own account of the bucket (naive: what it published, minus what it saw removed)
	prevVals := map[string]string{}
	for _, op := range cs.Ops {
		switch op.Op {
		case "pub":
			u := &mercure.Update{Topics: append([]string(nil), op.U.Topics...), Private: op.U.Private, Debug: cs.Debug,
				Event: mercure.Event{ID: op.U.ID, Data: op.U.Data, Type: op.U.Type, Retry: op.U.Retry}}
			if err := t.Dispatch(u); err != nil {
				panic(err)
			}
			if len(op.U.Topics) > 0 {
				checkWatch([]string{op.U.ID}, "accepted publication")
			} else {
				// an update without any topic cannot be published through the hub (the properties speak of 1..n topics);
				// on the transport its live fan-out goes through the subscriber list's encoded signature, which reads
				// "no topic" back as one empty topic: not compared
				drain(watch)
			}
			keys, vals := mercure.VerifBoltRaw(t)
			hk := make([]string, len(keys))
			for i := range keys {
				hk[i] = hex.EncodeToString(keys[i])
				// oracle (implementation alone): a stored value never changes
				if pv, ok := prevVals[hk[i]]; ok && pv != string(vals[i]) {
					viol("C09:stored-value-changed", fmt.Sprintf("value under key %s changed", hk[i]))
				}
				prevVals[hk[i]] = string(vals[i])
			}
			last := ""
			if len(vals) > 0 {
				last = hex.EncodeToString(vals[len(vals)-1])
				// oracle (implementation alone): the newest value decodes to what was published
				var back mercure.Update
				pubd := &mercure.Update{Topics: op.U.Topics, Private: op.U.Private, Event: mercure.Event{ID: op.U.ID, Data: op.U.Data, Type: op.U.Type, Retry: op.U.Retry}} // (Dispatch sorts u.Topics in place after storing)
				if err := json.Unmarshal(vals[len(vals)-1], &back); err != nil || showUpdFull(&back) != showUpdFull(pubd) {
					viol("C12:stored-value-does-not-decode-to-the-published-update", fmt.Sprintf("published %s, stored value decodes to %s (%v)", showUpdFull(pubd), showUpdFull(&back), err))
				}
			}
			seq := mercure.VerifBoltLastSeq(t)
			kept = append(kept, ent{seq, op.U})
			// drop what the cleanup removed
			live := map[string]bool{}
			for _, k := range hk {
				live[k[:16]] = true
			}
			nk := kept[:0]
			for _, e := range kept {
				if live[fmt.Sprintf("%016x", e.seq)] {
					nk = append(nk, e)
				}
			}
			kept = nk
			lines = append(lines, h.Line("store.pub", h.Hex(op.U.ID), h.HexList(op.U.Topics), h.B(op.U.Private), h.Hex(op.U.Data), h.Hex(op.U.Type), fmt.Sprint(op.U.Retry), strings.Join(hk, ","), last))
			impl = append(impl, "ok")
			r.Evaluations++
		case "pubfail":
			// a publication whose write transaction fails (the key would exceed bbolt's maximum key size): refused,
			// stored nowhere, handed to nobody
			k0, _ := mercure.VerifBoltRaw(t)
			err := t.Dispatch(&mercure.Update{Topics: []string{"t"}, Event: mercure.Event{ID: strings.Repeat("k", 40000), Data: "refused"}})
			k1, _ := mercure.VerifBoltRaw(t)
			if err == nil {
				viol("C10:oversized-id-accepted", "a 40000-byte id was accepted")
			}
			if len(k0) != len(k1) {
				viol("C09:refused-publication-changed-the-history", fmt.Sprintf("a publication that returned %v changed the bucket from %d to %d entries", err, len(k0), len(k1)))
			}
			// … and the transport's own idea of "the last update" still describes the bucket: the sequence number a
			// registration takes as its cut-off (lastSeq) and the id the subscription API reports (lastEventID)
			{
				seq, lid := mercure.VerifBoltLastSeq(t), mercure.VerifBoltLastEventID(t)
				wantSeq, wantID := uint64(0), "earliest"
				if len(kept) > 0 {
					wantSeq, wantID = kept[len(kept)-1].seq, kept[len(kept)-1].u.ID
				} else if seqs, _ := mercure.VerifBoltKeys(t); len(seqs) == 0 {
					wantSeq = mercure.VerifBoltBucketSequence(t)
				}
				if bs := mercure.VerifBoltBucketSequence(t); seq != bs {
					for _, k := range []string{"C07", "C09"} {
						viol(k+":sequence-cut-off-runs-ahead-of-the-bucket-after-a-refused-publication", fmt.Sprintf("after a publication refused with %v the transport's lastSeq is %d while the bucket's sequence is %d: the next registration takes a cut-off that includes an update not yet published (it will be replayed AND delivered live)", err, seq, bs))
					}
				}
				if lid != wantID && !(len(kept) == 0 && lid == "earliest") {
					viol("C18:last-event-id-is-a-refused-update", fmt.Sprintf("after a publication refused with %v the transport reports last event id of %d bytes (%.20q…), the newest stored update is %q", err, len(lid), lid, wantID))
				}
				_ = wantSeq
			}
			checkWatch(nil, "refused publication")
			r.Count("op:pubfail")
			r.Evaluations++
		case "restart":
			t.Close()
			t = open()
			watch = newWatch()
			seq := mercure.VerifBoltLastSeq(t)
			lid := mercure.VerifBoltLastEventID(t)
			got := fmt.Sprintf("%d =%s", seq, h.Hex(lid))
			if len(kept) == 0 {
				got = fmt.Sprintf("%d ~", seq)
				if lid != "earliest" {
					got = fmt.Sprintf("%d =%s", seq, h.Hex(lid))
				}
			}
			// oracle (implementation alone): after a restart the hub knows the last stored update
			if len(kept) > 0 && (lid != kept[len(kept)-1].u.ID || seq != kept[len(kept)-1].seq) {
				viol("C09:last-event-id-not-restored", fmt.Sprintf("after reopening: lastEventID %q lastSeq %d, last stored update %q seq %d", lid, seq, kept[len(kept)-1].u.ID, kept[len(kept)-1].seq))
			}
			lines = append(lines, h.Line("store.last"))
			impl = append(impl, got)
			r.Count("op:restart")
		case "scan":
			s := mercure.NewLocalSubscriber(op.Req, zapNop(), tss)
			s.SetTopics([]string{"*"}, []string{"*"})
			if err := t.AddSubscriber(s); err != nil {
				panic(err)
			}
			_, _, _, resp := mercure.VerifSubState(s)
			ups := drain(s)
			_ = t.RemoveSubscriber(s)
			s.Disconnect()
			parts := make([]string, len(ups))
			for i, u := range ups {
				parts[i] = showUpdFull(u)
			}
			rs := "=" + h.Hex(resp)
			if resp == "earliest" {
				rs = "~"
			}
			got := rs + "|" + strings.Join(parts, ";")
			// oracle (implementation alone, C08/C07): the announced id equals the requested one iff the replay is exactly
			// what was stored after the FIRST stored update carrying that id; otherwise everything… (see leid) — here: naive scan
			var want []string
			found := op.Req == "earliest"
			wantResp := "~"
			for _, e := range kept {
				if found {
					uu := e.u
					if len(uu.Topics) == 0 {
						continue // an update without topic matches no selector, not even "*"
					}
					want = append(want, showUpdFull(&mercure.Update{Topics: uu.Topics, Private: uu.Private, Event: mercure.Event{ID: uu.ID, Data: uu.Data, Type: uu.Type, Retry: uu.Retry}}))

					continue
				}
				wantResp = "=" + h.Hex(e.u.ID)
				if e.u.ID == op.Req {
					found = true
				}
			}
			if len(kept) > 0 && op.Req != "earliest" && kept[len(kept)-1].u.ID == "earliest" && !found {
				wantResp = "~" // an update whose id is the literal "earliest" was the last one skipped
			}
			if exp := wantResp + "|" + strings.Join(want, ";"); got != exp {
				key := "C08:history-scan-answers-for-another-id"
				if strings.SplitN(got, "|", 2)[0] == strings.SplitN(exp, "|", 2)[0] {
					key = "C07:replay-differs-from-the-stored-updates-after-the-requested-id"
				}
				viol(key, fmt.Sprintf("requested %q: got %s, a naive scan of what was published gives %s", op.Req, got, exp))
			}
			lines = append(lines, h.Line("store.scan", h.Hex(op.Req)))
			impl = append(impl, got)
			r.Evaluations++
			r.Count("op:scan")
		case "dec":
			var back *mercure.Update
			got := "none"
			if err := json.Unmarshal([]byte(op.Raw), &back); err == nil && back != nil {
				got = h.B(back.Debug) + " " + showUpdFull(back)
			}
			lines = append(lines, h.Line("store.dec", h.Hex(op.Raw)))
			impl = append(impl, got)
			r.Evaluations++
			r.Count("op:dec")
		}
	}
	if cs.CorruptAtEnd && len(kept) >= 2 {
		// implementation alone (C08): a replay that cannot hand over a stored update must not announce the requested
		// id as honoured — it fails (the hub answers 503 without Last-Event-ID), it does not skip the update
		mercure.VerifBoltCorruptLast(t)
		reqs := []string{"earliest"}
		for _, e := range kept[:len(kept)-1] {
			reqs = append(reqs, e.u.ID)
		}
		for _, req := range reqs {
			s := mercure.NewLocalSubscriber(req, zapNop(), tss)
			s.SetTopics([]string{"*"}, []string{"*"})
			err := t.AddSubscriber(s)
			_, _, _, resp := mercure.VerifSubState(s)
			ups := drain(s)
			_ = t.RemoveSubscriber(s)
			s.Disconnect()
			r.Evaluations++
			r.Count("op:scan-over-an-undecodable-entry")
			// the stored updates after the first occurrence of req (all of them for earliest), by the harness's own scan
			after, found := 0, req == "earliest"
			for _, e := range kept {
				if found && len(e.u.Topics) > 0 {
					after++
				}
				if e.u.ID == req {
					found = true
				}
			}
			if err == nil && found && resp == req && len(ups) < after {
				viol("C08:requested-id-announced-although-a-stored-update-after-it-was-not-replayed",
					fmt.Sprintf("requested %q: the transport announces %q and replays %d updates, %d are stored after that id (the newest one cannot be decoded and was skipped silently)", req, resp, len(ups), after))
			}
		}
	}
	ans := c.Driver.Ask(lines)
	for i := range lines {
		if ans[i] != impl[i] {
			r.Disagree(h.Disagreement{Class: "C12.store", Case: cs, Model: ans[i], Impl: impl[i] + "  <= " + strings.SplitN(lines[i], "\t", 2)[0], At: i})

			break
		}
	}
}

func genStoreCase(rr *h.Rand) stCase {
	cs := stCase{Size: h.Pick(rr, []uint64{0, 0, 1, 2, 3, 5}), Freq: h.Pick(rr, []float64{0, 0.5, 1, 1}), Debug: rr.Chance(1, 4)}
	var ids []string
	np := 1 + rr.Intn(14)
	for k := 0; k < np; k++ {
		u := stUpd{ID: fmt.Sprintf("e%d", k), Data: storeText(rr, 6), Type: storeText(rr, 2)}
		switch rr.Intn(8) {
		case 0:
			u.ID = storeText(rr, 3) + fmt.Sprint(k)
		case 1:
			if len(ids) > 0 { // an id of which an earlier id is a proper suffix / prefix
				if rr.Bool() {
					u.ID = "x" + h.Pick(rr, ids)
				} else {
					u.ID = h.Pick(rr, ids) + "x"
				}
			}
		case 2:
			if len(ids) > 0 {
				u.ID = h.Pick(rr, ids) // repeated id
			}
		case 3:
			u.ID = h.Pick(rr, []string{"earliest", "7", "\x00\x00\x00\x00\x00\x00\x00\x01a", "0abc", "abc"})
		}
		for n := rr.Intn(3); n >= 0; n-- {
			u.Topics = append(u.Topics, storeText(rr, 3))
		}
		if rr.Chance(1, 10) {
			u.Topics = nil
		}
		u.Private = rr.Chance(1, 3)
		if rr.Chance(1, 3) {
			u.Retry = h.Pick(rr, []uint64{1, 9, 10, 1000, 1<<32 - 1, 1 << 53, 1<<63 - 1, 1 << 63, 1<<64 - 1})
		}
		ids = append(ids, u.ID)
		cs.Ops = append(cs.Ops, stOp{Op: "pub", U: u})
		if rr.Chance(1, 6) {
			cs.Ops = append(cs.Ops, stOp{Op: "restart"})
		}
		if rr.Chance(1, 8) {
			cs.Ops = append(cs.Ops, stOp{Op: "pubfail"})
		}
		for rr.Chance(1, 3) {
			req := h.Pick(rr, ids)
			switch rr.Intn(6) {
			case 0:
				req = "earliest"
			case 1:
				req = "unknown"
			case 2:
				if len(req) > 1 {
					req = req[1:] // proper suffix of a stored id (may cut a rune: then not a valid request, skip)
				}
			case 3:
				if len(req) > 1 {
					req = req[:len(req)-1]
				}
			}
			if !validUTF8(req) || req == "" {
				req = "unknown"
			}
			cs.Ops = append(cs.Ops, stOp{Op: "scan", Req: req})
		}
	}

	return cs
}

func validUTF8(s string) bool {
	for _, ru := range s {
		if ru == '�' {
			return false
		}
	}

	return true
}

func runStore(c *h.Ctx, r *h.Report) {
	r.Rule = "publications straight onto a real BoltTransport (ids: generated, publisher-chosen, repeated, proper suffixes/prefixes of one another, the literal 'earliest', ids that look like a key prefix; topics/data/type from a vocabulary of JSON-significant and escape-worthy characters: quotes, backslashes, control characters, <>&, U+2028/9, astral and boundary scalars, text that looks like escapes; retry at the limits of uint64; Debug on/off; retention size in {0,1,2,3,5}, frequency in {0,0.5,1}); after every publication the raw keys and the newest raw value are read back and must be byte-identical to the model's (key = 8-byte big-endian sequence ‖ id, value = the model's json.Marshal; cleanup coin: acceptor); history scans through the real AddSubscriber for requested ids in {stored, proper suffix/prefix of a stored id, repeated, 'earliest', unknown}: announced id and replayed updates (all fields) compared with the model's byte-level scan + decoder and, independently, with a naive scan of what the harness published; close+reopen: restored lastSeq / lastEventID; publications whose write transaction fails (oversized key): refused, nothing stored, nothing handed to the connected '*' subscriber, which otherwise is handed exactly the accepted updates, once, in order; json.Unmarshal vs the model's decoder on stored values whose strings were re-spelt with other legal JSON escapes (\\uXXXX, surrogate pairs, \\/). Non-trivial = case with a scan whose requested id is a proper suffix or prefix of a stored id, or a repeated id; distinct by content."
	if c.Replay != "" {
		var rp struct {
			Case stCase `json:"case"`
		}
		readReplay(c.Replay, &rp)
		runStoreCase(c, r, rp.Case)

		return
	}
	n := c.Scale(250, 4000)
	for i := 0; i < n; i++ {
		rr := c.Rand.Fork()
		cs := genStoreCase(rr)
		// re-spelt values to decode: built from the model-independent Go encoder on the case's own updates
		var decs []stOp
		for _, op := range cs.Ops {
			if op.Op == "pub" && rr.Chance(1, 2) {
				v, _ := json.Marshal(mercure.Update{Topics: op.U.Topics, Private: op.U.Private, Debug: cs.Debug, Event: mercure.Event{ID: op.U.ID, Data: op.U.Data, Type: op.U.Type, Retry: op.U.Retry}})
				decs = append(decs, stOp{Op: "dec", Raw: respell(rr, v)})
			}
		}
		cs.Ops = append(cs.Ops, decs...)
		cs.CorruptAtEnd = rr.Chance(1, 3)
		runStoreCase(c, r, cs)
		nt := false
		seen := map[string]bool{}
		for _, op := range cs.Ops {
			if op.Op == "pub" {
				if seen[op.U.ID] {
					nt = true
				}
				seen[op.U.ID] = true
			}
			if op.Op == "scan" && !seen[op.Req] && op.Req != "earliest" && op.Req != "unknown" {
				nt = true
			}
		}
		if nt {
			r.Nontrivial(fmt.Sprint(cs))
		}
		r.Count(fmt.Sprintf("size:%d", cs.Size))
		r.Count(fmt.Sprintf("freq:%v", cs.Freq))
		if i < 3 {
			r.Sample(cs)
		}
	}
}
