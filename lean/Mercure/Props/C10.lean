import Mercure.Lemmas.Retention
/-
  C10 — History retention keeps a contiguous most-recent window of the configured size.
-/
namespace Mercure.C10
open Mercure

/-- The retained history is always a contiguous suffix of the accepted updates: no update is
    discarded while an older one is kept — for every size, every cleanup coin sequence. -/
theorem retained_is_suffix (size : Nat) (ps : List (Bool × Update)) :
    ∃ k, ((rRun size ps).db.map (·.2)) = (rRun size ps).acc.drop k ∧
         ((rRun size ps).db.map (·.1)) = List.range' (k + 1) ((rRun size ps).acc.length - k) :=
  Mercure.rRun_suffix size ps

theorem accepted_is_published (size : Nat) (ps : List (Bool × Update)) :
    (rRun size ps).acc = ps.map (·.2) ∧ (rRun size ps).seq = ps.length :=
  Mercure.rRun_acc size ps

/-- It never holds fewer than min(published, size) updates. -/
theorem retained_ge_min (size : Nat) (hs : 0 < size) (ps : List (Bool × Update)) :
    min ps.length size ≤ (rRun size ps).db.length :=
  Mercure.rRun_ge_min size hs ps

/-- When cleanup runs on every publication it holds exactly that many. -/
theorem retained_eq_min_when_always_cleaning (size : Nat) (hs : 0 < size) (ps : List (Bool × Update))
    (hc : ∀ p ∈ ps, p.1 = true) :
    (rRun size ps).db.length = min ps.length size :=
  Mercure.rRun_eq_min size hs ps hc

/-- Size 0 means nothing is ever discarded. -/
theorem size_zero_keeps_all (ps : List (Bool × Update)) :
    (rRun 0 ps).db.map (·.2) = ps.map (·.2) :=
  Mercure.rRun_zero ps

/-- Consequently a replay from any retained id is complete: with unique ids, negotiating from the
    id of a retained update returns that id and exactly the accepted updates after it. -/
theorem replay_from_retained_complete (size : Nat) (ps : List (Bool × Update))
    (huniq : ((ps.map (·.2)).map (·.id)).Nodup) (hne : ∀ p ∈ ps, p.2.id ≠ earliest)
    (i : Nat) (e : Nat × Update) (he : (rRun size ps).db[i]? = some e) :
    negotiate (rRun size ps).db e.2.id = (e.2.id, (ps.map (·.2)).drop e.1) :=
  Mercure.rRun_replay size ps huniq hne i e he

/-! non-vacuity -/
example : ((rRun 2 [(false, ⟨['a'], [], false, [], [], 0⟩), (false, ⟨['b'], [], false, [], [], 0⟩),
                    (false, ⟨['c'], [], false, [], [], 0⟩), (true, ⟨['d'], [], false, [], [], 0⟩)]).db.map (·.1)) = [3, 4] := by
  decide +kernel

end Mercure.C10

#print axioms Mercure.C10.retained_is_suffix
#print axioms Mercure.C10.accepted_is_published
#print axioms Mercure.C10.retained_ge_min
#print axioms Mercure.C10.retained_eq_min_when_always_cleaning
#print axioms Mercure.C10.size_zero_keeps_all
#print axioms Mercure.C10.replay_from_retained_complete
