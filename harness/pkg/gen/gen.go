// Package gen holds the structured generators shared by the families: topic / selector /
// template vocabularies that include the characters each property singles out.
package gen

import (
	"strings"

	"verifharness/pkg/h"

	"github.com/yosida95/uritemplate/v3"
)

// Atoms used to build literals. They include the cache-key separator '_', braces, the
// subscriber-list delimiter/escape scalars, CR/LF, '+', space, '%', '/', '*', multi-byte text.
var LitAtoms = []string{"a", "b", "c", "_", "/", "foo", "bar", "x_y", "é", "日本", "%", "+", " ", ".", "~", "-", ":", "?", "#", "=", "&", "😀"}

var SpecialAtoms = []string{"\x00", "\x01", "\r", "\n", "{", "}", "*", " "}

var ops = []string{"", "+", "#", ".", "/", ";", "?", "&"}
var varNames = []string{"x", "id", "a_b", "v1"}

// Literal returns a short literal string.
func Literal(r *h.Rand, special bool) string {
	n := 1 + r.Intn(3)
	var b strings.Builder
	for i := 0; i < n; i++ {
		if special && r.Chance(1, 4) {
			b.WriteString(h.Pick(r, SpecialAtoms))
		} else {
			b.WriteString(h.Pick(r, LitAtoms))
		}
	}

	return b.String()
}

// Expr returns one RFC 6570 expression such as {x}, {+x}, {/a,b}, {x:3}, {x*}.
func Expr(r *h.Rand) string {
	op := h.Pick(r, ops)
	n := 1
	if r.Chance(1, 4) {
		n = 2
	}
	vs := make([]string, n)
	for i := range vs {
		v := h.Pick(r, varNames)
		switch r.Intn(6) {
		case 0:
			v += ":" + h.Itoa(1+r.Intn(4))
		case 1:
			v += "*"
		}
		vs[i] = v
	}

	return "{" + op + strings.Join(vs, ",") + "}"
}

// Template returns a (mostly valid) URI template mixing literals and expressions.
func Template(r *h.Rand) string {
	var b strings.Builder
	parts := 1 + r.Intn(3)
	for i := 0; i < parts; i++ {
		if r.Bool() {
			b.WriteString(Literal(r, false))
		}
		b.WriteString(Expr(r))
	}
	if r.Bool() {
		b.WriteString(Literal(r, false))
	}

	return b.String()
}

var malformed = []string{"{", "a{", "{a", "}{", "{a}{", "{!a}", "{a:}", "{a:0}", "{,}", "{a b}", "a}{b", "{{a}}", "{a}}", "{a:10000}", "{é}"}

// Malformed returns a string containing '{' that is (most likely) not a valid template.
func Malformed(r *h.Rand) string {
	s := h.Pick(r, malformed)
	if r.Bool() {
		s = Literal(r, false) + s
	}

	return s
}

var values = []string{"", "a", "b", "foo", "a_b", "x/y", "é", "hello world", "50%", "a,b", "1", "long-value-here"}

// Expand returns an expansion of tpl for random variable values ("" if it cannot be expanded).
func Expand(r *h.Rand, tpl *uritemplate.Template) string {
	vals := uritemplate.Values{}
	for _, n := range tpl.Varnames() {
		switch r.Intn(5) {
		case 0:
			vals.Set(n, uritemplate.List(h.Pick(r, values), h.Pick(r, values)))
		case 1:
			vals.Set(n, uritemplate.KV("k", h.Pick(r, values)))
		default:
			vals.Set(n, uritemplate.String(h.Pick(r, values)))
		}
	}
	s, err := tpl.Expand(vals)
	if err != nil {
		return ""
	}

	return s
}

// Perturb changes one scalar of s (near-miss).
func Perturb(r *h.Rand, s string) string {
	rs := []rune(s)
	if len(rs) == 0 {
		return "z"
	}
	i := r.Intn(len(rs))
	switch r.Intn(3) {
	case 0:
		rs[i] = 'Z'
	case 1:
		rs = append(rs[:i], rs[i+1:]...)
	default:
		rs = append(rs[:i], append([]rune{'_'}, rs[i:]...)...)
	}

	return string(rs)
}

// Oracle answers for the template library (trusted base; DESIGN §7) — computed by calling
// yosida95/uritemplate directly, never through the hub.
type Oracle struct {
	valid map[string]bool
	exp   map[[2]string]bool
	tpls  map[string]*uritemplate.Template
}

func NewOracle() *Oracle {
	return &Oracle{valid: map[string]bool{}, exp: map[[2]string]bool{}, tpls: map[string]*uritemplate.Template{}}
}

func (o *Oracle) Valid(sel string) bool {
	if v, ok := o.valid[sel]; ok {
		return v
	}
	t, err := uritemplate.New(sel)
	o.valid[sel] = err == nil
	if err == nil {
		o.tpls[sel] = t
	}

	return err == nil
}

func (o *Oracle) Expands(sel, topic string) bool {
	k := [2]string{sel, topic}
	if v, ok := o.exp[k]; ok {
		return v
	}
	v := false
	if o.Valid(sel) {
		v = o.tpls[sel].Regexp().MatchString(topic)
	}
	o.exp[k] = v

	return v
}

// Spec is the protocol's relation, computed by the harness on its own.
func (o *Oracle) Spec(topic, sel string) bool {
	return sel == "*" || sel == topic || (strings.Contains(sel, "{") && o.Valid(sel) && o.Expands(sel, topic))
}

// Lines returns the driver lines that load the oracle for every (sel, topic) pair.
func (o *Oracle) Lines(sels, topics []string) []string {
	var ls []string
	for _, s := range sels {
		ls = append(ls, h.Line("or.valid", h.Hex(s), h.B(o.Valid(s))))
		for _, t := range topics {
			// both answers are announced: the driver no longer loads them, it checks its own
			// (Model/Template) against them and answers or-mismatch when they differ
			ls = append(ls, h.Line("or.exp", h.Hex(s), h.Hex(t), h.B(o.Expands(s, t))))
		}
	}

	return ls
}
