#!/usr/bin/env python3
"""Regenerates MANIFEST.json from the table below (keeps it valid at all times)."""
import json, os
ROOT = os.path.dirname(os.path.dirname(os.path.abspath(__file__)))
base = json.load(open("/root/.vp/BASELINE.json"))
props = [json.loads(l) for l in open(os.path.join(ROOT, "properties.jsonl"))]

TB = ("Trusted: Lean 4.33 kernel; axioms ⊆ {propext, Classical.choice, Quot.sound} (audited per theorem on every run); "
      "the hand-written model is tied to /repo by the sampled correspondence check (Go harness driving the real code in-process "
      "against the compiled Lean driver) and by regenerated source facts — both trusted, not proved. ")

CLAIMED = {
 "C11": dict(
   text="Theorem over an exact executable model of the sharded-LRU selector store: for every lookup history, capacity and shard count (0 = disabled) every answer equals the protocol's relation (cache transparency by a weak-cache invariant; thread-modular form for concurrent evaluation). The key expression and the hit validation are regenerated from topicselector.go on every run and the obligation is re-proved against them; the model is run against the real store on generated and collision-seeking histories.",
   note=TB + "RFC 6570 semantics (yosida95/uritemplate + Go regexp) enters as the TemplateOracle parameter: partial on that side.",
   technique="Lean 4 proof (invariant + induction over lookup histories) + regenerated-fact obligation + differential correspondence",
   design="§8 C11"),
}

checks = []
for p in props:
    i = p["id"]
    if i in CLAIMED:
        c = CLAIMED[i]
        checks.append({
            "property_id": i,
            "quick_cmd": f"./check {i} quick",
            "thorough_cmd": f"./check {i} thorough",
            "evidence_file": f"/verif/evidence/{i}.json",
            "replay_cmd_template": f"./check {i} quick --replay {{path}}",
            "engine": "lean4+correspondence",
            "level_claimed": {"category": "proof", "text": c["text"], "design_ref": c["design"]},
            "level_note": c["note"],
            "technique": c["technique"],
        })
na = [{"property_id": p["id"], "reason": "not claimed yet: the model/theorems/correspondence for this property are still being built (see DESIGN.md §13); Lean proof is applicable"}
      for p in props if p["id"] not in CLAIMED]
m = {
 "version": 1,
 "setup_cmd": "./setup.sh",
 "hooks": {
   "guard": "verif",
   "enable": "go build -tags verif -overlay /verif/.build/overlay.json (white-box accessors in /verif/harness/overlay are injected at build time; nothing is written into /repo)",
   "baseline_off_cmd": base["cmd"],
   "source_commits": [],
   "add_only": True,
 },
 "engines": [{"name": "lean4+correspondence", "path": "/verif/check", "serves_properties": sorted(CLAIMED),
              "kind_free_text": "Lean 4 theorems over a hand-written executable model (lean/), tied to /repo by a Go differential harness (harness/) and a go/ast fact extractor"}],
 "checks": checks,
 "not_applicable": na,
 "notes": "Fix commits in /repo are listed in known_findings.json under 'fixed'. See DESIGN.md.",
}
json.dump(m, open(os.path.join(ROOT, "MANIFEST.json"), "w"), indent=1, ensure_ascii=False)
print("claimed:", sorted(CLAIMED), "not yet:", len(na))
