#!/bin/bash
# Build the framework from files on disk only (offline).
set -e
cd "$(dirname "$0")"
mkdir -p .build evidence replays
# extract + instrumenter + the three harness builds (plain, instrumented, race) + facts + driver
./tools/build.sh
(cd lean && lake build Mercure driver)
echo setup done
