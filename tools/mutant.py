#!/usr/bin/env python3
"""Evaluate a seeded change: apply its patch to /repo, run the given checks, undo.
usage: mutant.py <seeded-dir> [Cxx …]   (default: the property in meta.json, then every claimed check if --all)
Prints one line per check: property, exit code, VIOLATION lines."""
import json, os, subprocess, sys
ROOT = os.path.dirname(os.path.dirname(os.path.abspath(__file__)))
d = os.path.abspath(sys.argv[1])
props = [a for a in sys.argv[2:] if a.startswith("C")]
meta = json.load(open(os.path.join(d, "meta.json"))) if os.path.exists(os.path.join(d, "meta.json")) else {}
if not props:
    props = [meta.get("property")]
if "--all" in sys.argv:
    props = [c["property_id"] for c in json.load(open(os.path.join(ROOT, "MANIFEST.json")))["checks"]]
st = subprocess.run(["git", "-C", "/repo", "status", "--porcelain"], capture_output=True, text=True).stdout.strip()
if st:
    print("refusing: /repo has uncommitted changes:\n" + st); sys.exit(2)
subprocess.run(["git", "-C", "/repo", "apply", os.path.join(d, "patch.diff")], check=True)
res = {}
# evidence/ describes the unchanged tree: keep it aside while the checks run against the changed one
import shutil, tempfile
keep = tempfile.mkdtemp(prefix="evidence-keep-")
shutil.copytree(os.path.join(ROOT, "evidence"), os.path.join(keep, "evidence"))
try:
    for p in props:
        r = subprocess.run([os.path.join(ROOT, "check"), p, "quick"], cwd=ROOT, capture_output=True, text=True, timeout=3600)
        viol = [l for l in r.stdout.splitlines() if l.startswith("VIOLATION") or l.startswith("KNOWN-FINDING")]
        nd = [l for l in r.stdout.splitlines() if l.startswith("NOT-DISCHARGED")]
        res[p] = {"exit": r.returncode, "violations": viol, "not_discharged": nd}
        print(p, "exit", r.returncode, "|", " ; ".join(viol)[:300], "|", " ; ".join(nd)[:200])
        # keep the replay files of this run for the record
finally:
    subprocess.run(["git", "-C", "/repo", "checkout", "--", "."], check=True)
    subprocess.run(["git", "-C", "/repo", "clean", "-fdq", "--", "zz_demo*", "caddy/zz_demo*"], check=False)
shutil.rmtree(os.path.join(ROOT, "evidence"))
shutil.copytree(os.path.join(keep, "evidence"), os.path.join(ROOT, "evidence"))
shutil.rmtree(keep)
# the binaries under .build were built from the changed tree: rebuild them from the restored one
subprocess.run([os.path.join(ROOT, "tools/build.sh")], capture_output=True)
subprocess.run([os.path.join(ROOT, ".build/extract"), os.path.join(ROOT, "lean/Mercure/Generated/Facts.lean"), os.path.join(ROOT, ".build/facts.json"), "/repo"], capture_output=True)
json.dump(res, open(os.path.join(d, "result.json"), "w"), indent=1)
