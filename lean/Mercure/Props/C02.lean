import Mercure.Model.Subscribe
import Mercure.Lemmas.Auth
import Mercure.Lemmas.Template
/-
  C02 — Updates are dispatched only for publishers authorized for every topic.
  (The "no effect at all" half — state unchanged on refusal — is `Hub` level: Props/C02 imports
  it from the hub model once that is in; here the decision itself.)
-/
namespace Mercure.C02
open Mercure

/-- `canDispatch` is "every topic is covered by `*` or a matching selector" — wherever `*` and the
    forbidden topic sit in their lists. -/
theorem canDispatch_iff (M : Str → Str → Bool) (ts sels : List Str) :
    canDispatch M ts sels = ts.all (fun t => sels.any (fun x => x == ['*'] || M t x)) := by
  exact canDispatch_eq_all_any M ts sels

/-- Position independence: only membership in the topic list and in the claim matters. -/
theorem canDispatch_perm (M : Str → Str → Bool) {ts ts' sels sels' : List Str}
    (h1 : ∀ x, x ∈ ts ↔ x ∈ ts') (h2 : ∀ x, x ∈ sels ↔ x ∈ sels') :
    canDispatch M ts sels = canDispatch M ts' sels' := by
  rw [Bool.eq_iff_iff, canDispatch_eq_true_iff, canDispatch_eq_true_iff]
  simp only [h1, h2]

/-- The publisher is authorised for this request. -/
def Authorised (cfg : HubCfg) (M : Str → Str → Bool) (tok : Str → Option Claims) (r : PubReq) : Prop :=
  ∃ c ps, authorize cfg.minHeader cfg.minQuery tok r.auth cfg.publishOrigins = .ok (some c) ∧
    c.mercure.publish = some ps ∧
    ((∀ t ∈ r.topics, ∃ p ∈ ps, p = ['*'] ∨ M t p = true) ∨ (cfg.compat7 = true ∧ r.priv = false))

def WellFormed (r : PubReq) : Prop :=
  r.formOk = true ∧ r.topics ≠ [] ∧ (r.retryStr = [] ∨ (parseUint64 r.retryStr).isSome = true)

/-- **A POST is accepted iff** it carries a valid publisher token whose `mercure.publish` is defined
    and covers every topic (or: version-7 compatibility and the update is not private), and the body
    is well-formed. -/
theorem publish_ok_iff (cfg : HubCfg) (M : Str → Str → Bool) (tok : Str → Option Claims) (r : PubReq) :
    (∃ u, publish cfg M tok r = .accepted u) ↔ (Authorised cfg M tok r ∧ WellFormed r) := by
  unfold publish Authorised WellFormed
  generalize "Missing \"topic\" parameter\n".toList = b1
  generalize "Invalid \"retry\" parameter\n".toList = b2
  cases ha : authorize cfg.minHeader cfg.minQuery tok r.auth cfg.publishOrigins with
  | error e => simp
  | ok oc =>
    cases oc with
    | none => simp
    | some c =>
      simp only
      cases hps : c.mercure.publish with
      | none => simp [hps]
      | some ps =>
        simp only [Except.ok.injEq, Option.some.injEq]
        have hR : (∃ c_1 ps', c = c_1 ∧ c_1.mercure.publish = some ps' ∧
              ((∀ t ∈ r.topics, ∃ p ∈ ps', p = ['*'] ∨ M t p = true) ∨
                (cfg.compat7 = true ∧ r.priv = false))) ↔
            (canDispatch M r.topics ps = true ∨ (cfg.compat7 = true ∧ r.priv = false)) := by
          rw [canDispatch_eq_true_iff]
          constructor
          · rintro ⟨c1, ps', rfl, h1, h2⟩
            rw [hps] at h1; cases h1; exact h2
          · intro h; exact ⟨c, ps, rfl, hps, h⟩
        rw [hR]
        cases hf : r.formOk
        · simp
        · by_cases ht : r.topics = []
          · simp [ht]
          · by_cases hr : r.retryStr = []
            · cases canDispatch M r.topics ps <;> cases r.priv <;> cases cfg.compat7 <;> simp [hr, ht]
            · cases hpu : parseUint64 r.retryStr with
              | none => simp [hr, ht]
              | some n =>
                cases canDispatch M r.topics ps <;> cases r.priv <;> cases cfg.compat7 <;> simp [hr, ht]

/-- Every refusal is a 4xx carrying a fixed status text — never an update id. -/
theorem publish_refused_4xx (cfg : HubCfg) (M : Str → Str → Bool) (tok : Str → Option Claims) (r : PubReq)
    (s : Nat) (b : Str) (h : publish cfg M tok r = .refused s b) :
    (s = 401 ∧ b = unauthorizedBody) ∨
    (s = 400 ∧ (b = badRequestBody ∨ b = "Missing \"topic\" parameter\n".toList ∨ b = "Invalid \"retry\" parameter\n".toList)) := by
  unfold publish at h
  generalize "Missing \"topic\" parameter\n".toList = b1 at h ⊢
  generalize "Invalid \"retry\" parameter\n".toList = b2 at h ⊢
  generalize (if (r.retryStr == []) = true then some 0 else parseUint64 r.retryStr) = re at h
  cases re <;> simp only at h <;> (repeat' split at h) <;> (cases h <;> simp)

/-- What is dispatched is what was posted. -/
theorem publish_accepted_shape (cfg : HubCfg) (M : Str → Str → Bool) (tok : Str → Option Claims) (r : PubReq)
    (u : Update) (h : publish cfg M tok r = .accepted u) :
    u.topics = r.topics ∧ u.priv = r.priv ∧ u.data = r.data ∧ u.id = r.id ∧ u.type = r.type ∧
    (if r.retryStr = [] then u.retry = 0 else parseUint64 r.retryStr = some u.retry) := by
  unfold publish at h
  generalize "Missing \"topic\" parameter\n".toList = b1 at h ⊢
  generalize "Invalid \"retry\" parameter\n".toList = b2 at h ⊢
  generalize hre : (if (r.retryStr == []) = true then some 0 else parseUint64 r.retryStr) = re at h
  cases re <;> simp only at h <;> (repeat' split at h) <;> cases h
  refine ⟨rfl, rfl, rfl, rfl, rfl, ?_⟩
  by_cases hr : r.retryStr = []
  · simp [hr] at hre ⊢; exact hre.symm
  · simp [hr] at hre ⊢; exact hre

/-- The compatibility exception never lets a private update through. -/
theorem compat_never_private (cfg : HubCfg) (M : Str → Str → Bool) (tok : Str → Option Claims) (r : PubReq)
    (u : Update) (h : publish cfg M tok r = .accepted u) (hp : r.priv = true) :
    ∃ c ps, authorize cfg.minHeader cfg.minQuery tok r.auth cfg.publishOrigins = .ok (some c) ∧
      c.mercure.publish = some ps ∧ ∀ t ∈ r.topics, ∃ p ∈ ps, p = ['*'] ∨ M t p = true := by
  obtain ⟨⟨c, ps, h1, h2, h3⟩, _⟩ := (publish_ok_iff cfg M tok r).mp ⟨u, h⟩
  rcases h3 with h3 | ⟨_, h3⟩
  · exact ⟨c, ps, h1, h2, h3⟩
  · simp [hp] at h3

/-- A defined-but-empty claim authorises nothing (outside the compatibility mode). -/
theorem empty_claim_refused (cfg : HubCfg) (M : Str → Str → Bool) (tok : Str → Option Claims) (r : PubReq) (c : Claims)
    (ha : authorize cfg.minHeader cfg.minQuery tok r.auth cfg.publishOrigins = .ok (some c))
    (hc : c.mercure.publish = some []) (hcompat : cfg.compat7 = false) :
    ∃ s b, publish cfg M tok r = .refused s b := by
  cases hpub : publish cfg M tok r with
  | refused s b => exact ⟨s, b, rfl⟩
  | accepted u =>
    exfalso
    obtain ⟨⟨c', ps, h1, h2, h3⟩, _, hne, _⟩ := (publish_ok_iff cfg M tok r).mp ⟨u, hpub⟩
    rw [ha] at h1
    cases h1
    rw [hc] at h2
    cases h2
    rcases h3 with h3 | ⟨h3, _⟩
    · cases ht : r.topics with
      | nil => exact hne ht
      | cons t ts =>
        obtain ⟨p, hp, _⟩ := h3 t (by simp [ht])
        simp at hp
    · simp [hcompat] at h3

/-! non-vacuity -/
example : ∃ u, publish {} (fun t x => t == x) (fun _ => some { mercure := { publish := some [['a'], ['*']] } })
    { auth := { authHeaders := none, queryAuth := some ["0123456789012345678901234567890123456789k".toList], cookie := none, isPost := true, origin := [], referer := [], refererOrigin := none },
      formOk := true, topics := [['z'], ['a']], retryStr := ['7'], priv := true, data := [], id := [], type := [] } = .accepted u := by
  exact ⟨_, rfl⟩

/-! ### with the template library as a definition (Model/Template): the exact publishing scope of a claim -/

/-- **The scope of a `literal{var}` claim, as bytes**: a publisher whose only claim parses to a literal followed by
    one simple variable may publish (privately, or without version-7 compatibility) on the claim text itself and on
    exactly the topics made of the literal followed by unreserved characters, commas and `%XX` triplets — never on
    one that continues with `/`, `?`, `#`, `:`, a space or a non-ASCII character. -/
theorem scope_of_literal_var_claim (sel p : Str) (v : Template.VarSpec) (hv : v.explode = false)
    (hp : Template.parse sel = some [.lit p, .expr .simple [v]]) (hs : sel ≠ ['*'])
    (hb : containsChar sel '{' = true) (t : Str) :
    canDispatch (matchSpec Template.oracle) [t] [sel] = true ↔ (t = sel ∨ ∃ w, t = p ++ w ∧ Template.ClassStr w) := by
  rw [canDispatch_iff]
  have hne : (sel == ['*']) = false := by simpa using hs
  simp only [List.all_cons, List.all_nil, List.any_cons, List.any_nil, Bool.and_true, Bool.or_false,
    matchSpec, matchUncached, Template.oracle, Template.valid, Template.expands, hp, hb, hne,
    Option.isSome_some, Bool.true_and, Bool.false_or]
  have h := Template.lit_var_matches_iff p v hv t
  unfold Template.matchTemplate
  rw [Bool.or_eq_true, beq_iff_eq, h]

/-- non-vacuity: the claim `https://example.com/books/{id}` has that shape -/
example : Template.parse "https://example.com/books/{id}".toList
      = some [.lit "https://example.com/books/".toList, .expr .simple [{ name := "id".toList }]]
    ∧ containsChar "https://example.com/books/{id}".toList '{' = true := by decide +kernel

end Mercure.C02

#print axioms Mercure.C02.canDispatch_iff
#print axioms Mercure.C02.canDispatch_perm
#print axioms Mercure.C02.publish_ok_iff
#print axioms Mercure.C02.publish_refused_4xx
#print axioms Mercure.C02.publish_accepted_shape
#print axioms Mercure.C02.compat_never_private
#print axioms Mercure.C02.empty_claim_refused
#print axioms Mercure.C02.scope_of_literal_var_claim
