#!/usr/bin/env python3
"""Confirm a sub-agent's seeded change in its scratch worktree and file it under /verif/seeded/.
usage: intake.py <Cxx> [name]"""
import json, os, subprocess, sys, shutil, glob
ID = sys.argv[1]
name = sys.argv[2] if len(sys.argv) > 2 else "M-" + ID
wt = f"/tmp/mut/{ID}" if len(sys.argv) <= 3 else sys.argv[3]
env = dict(os.environ, GOFLAGS="-mod=mod", GOPROXY="off"); env.pop("GOSUMDB", None)
def sh(cmd, cwd=wt, **kw):
    return subprocess.run(cmd, cwd=cwd, env=env, capture_output=True, text=True, shell=isinstance(cmd, str), **kw)
diff = sh("git diff").stdout
if not diff.strip():
    print("no source change in", wt); sys.exit(1)
demos = [p for p in glob.glob(wt + "/zz_demo*_test.go") + glob.glob(wt + "/caddy/zz_demo*_test.go")]
ran = {}
b = sh("go build ./... && (cd caddy && go build ./...)"); ran["build"] = b.returncode == 0
bl = sh(["python3", "/tmp/mut/baseline.py", "--stable", wt]); ran["baseline_with_change"] = bl.stdout.strip().splitlines()[0] if bl.stdout else bl.stderr[-200:]
incaddy = any("/caddy/" in d for d in demos)
pkg = "."
tcwd = wt + "/caddy" if incaddy else wt
t1 = sh(f"go test -count=1 -run 'TestDemo' {pkg} 2>&1 | tail -15", cwd=tcwd, timeout=900); ran["demo_with_change"] = "FAIL" if ("FAIL" in t1.stdout) else "ok"
# (git stash is shared between worktrees: reverse-apply the diff instead)
open("/tmp/mut/_intake.diff", "w").write(diff)
sh("git apply -R /tmp/mut/_intake.diff")
t2 = sh(f"go test -count=1 -run 'TestDemo' {pkg} 2>&1 | tail -5", cwd=tcwd, timeout=900); ran["demo_without_change"] = "FAIL" if ("FAIL" in t2.stdout) else "ok"
sh("git apply /tmp/mut/_intake.diff")
ok = ran["build"] and "49/49" in str(ran["baseline_with_change"]) and ran["demo_with_change"] == "FAIL" and ran["demo_without_change"] == "ok"
print(json.dumps(ran, indent=1)); print("CONFIRMED" if ok else "NOT CONFIRMED")
if not ok:
    print(t1.stdout[-1500:]); print(t2.stdout[-800:]); sys.exit(1)
dst = f"/verif/seeded/{name}"
os.makedirs(dst, exist_ok=True)
open(dst + "/patch.diff", "w").write(diff)
for d in demos:
    shutil.copy(d, dst)
md = open(wt + "/MUTANT.md").read() if os.path.exists(wt + "/MUTANT.md") else ""
open(dst + "/MUTANT.md", "w").write(md)
json.dump({"property": ID, "kind": "change written by an independent sub-agent given only the property text and a scratch worktree",
           "needs": "see MUTANT.md", "confirmed_by_me": ran,
           "what_i_ran": "go build (root+caddy); tools/baseline.py --stable (49 stable tests) with the change; the demonstration test with and without the change"},
          open(dst + "/meta.json", "w"), indent=1)
print("filed under", dst)
