import Mercure.Model.Retention
/-
  Lemmas for C10 (retention) and C08 (negotiation).
-/
namespace Mercure

/-! ### helpers -/

/-- Filtering a list keyed by `range' s m` by `> c` drops a prefix. -/
theorem filter_gt_keys (c : Nat) (L : List (Nat × Update)) (s m : Nat)
    (hk : L.map (·.1) = List.range' s m) :
    L.filter (fun e => e.1 > c) = L.drop (c + 1 - s) := by
  induction L generalizing s m with
  | nil => simp
  | cons e rest ih =>
    cases m with
    | zero => simp at hk
    | succ m =>
      rw [List.range'_succ] at hk
      simp only [List.map_cons, List.cons.injEq] at hk
      obtain ⟨h1, h2⟩ := hk
      have ih' := ih (s + 1) m h2
      by_cases hc : e.1 > c
      · have hz : c + 1 - s = 0 := by omega
        have hz' : c + 1 - (s + 1) = 0 := by omega
        rw [hz'] at ih'
        simp only [List.drop_zero] at ih'
        rw [List.filter_cons_of_pos (by simpa using hc), ih', hz]
        rfl
      · have hz : c + 1 - s = (c + 1 - (s + 1)) + 1 := by omega
        rw [List.filter_cons_of_neg (by simpa using hc), ih', hz]
        rfl

/-- The invariant of the retention machine after publishing `ps`. -/
def RInv (size : Nat) (ps : List (Bool × Update)) (st : RSt) : Prop :=
  st.acc = ps.map (·.2) ∧ st.seq = ps.length ∧
  ∃ k, k ≤ ps.length ∧ (size = 0 → k = 0) ∧ k ≤ ps.length - size ∧
    ((∀ p ∈ ps, p.1 = true) → 0 < size → k = ps.length - size) ∧
    st.db.map (·.2) = (ps.map (·.2)).drop k ∧
    st.db.map (·.1) = List.range' (k + 1) (ps.length - k)

theorem RInv_init (size : Nat) : RInv size [] {} := by
  refine ⟨rfl, rfl, 0, ?_⟩
  simp

theorem RInv_step (size : Nat) (ps : List (Bool × Update)) (st : RSt) (q : Bool × Update)
    (h : RInv size ps st) : RInv size (ps ++ [q]) (rPublish size st q) := by
  obtain ⟨hacc, hseq, k, hk, hz, hle, hall, hsnd, hfst⟩ := h
  have hsnd' : (st.db ++ [(st.seq + 1, q.2)]).map (·.2) = ((ps ++ [q]).map (·.2)).drop k := by
    rw [List.map_append, List.map_append, List.drop_append_of_le_length (by simpa using hk), hsnd]
    rfl
  have hfst' : (st.db ++ [(st.seq + 1, q.2)]).map (·.1)
      = List.range' (k + 1) ((ps ++ [q]).length - k) := by
    have : (ps ++ [q]).length - k = (ps.length - k) + 1 := by simp; omega
    rw [this, List.range'_concat, List.map_append, hfst, hseq]
    simp; omega
  refine ⟨by simp [rPublish, hacc], by simp [rPublish, hseq], ?_⟩
  have hlen : (ps ++ [q]).length = ps.length + 1 := by simp
  by_cases hcoin : q.1 = true
  · by_cases hsz : (size == 0 || size ≥ st.seq + 1) = true
    · -- cleanup is a no-op
      refine ⟨k, by omega, hz, ?_, ?_, ?_, ?_⟩
      · simp at hsz; omega
      · intro _ hpos
        simp at hsz
        omega
      · simpa [rPublish, hcoin, retain, hsz] using hsnd'
      · simpa [rPublish, hcoin, retain, hsz] using hfst'
    · have hsz' : 0 < size ∧ size < ps.length + 1 := by
        simp at hsz; omega
      have hdb : (rPublish size st q).db
          = (st.db ++ [(st.seq + 1, q.2)]).drop (st.seq + 1 - size + 1 - (k + 1)) := by
        simp only [rPublish, hcoin, if_true, retain, hsz]
        exact filter_gt_keys _ _ _ _ hfst'
      refine ⟨k + (st.seq + 1 - size + 1 - (k + 1)), by omega, by omega, by omega, ?_, ?_, ?_⟩
      · intro _ _; omega
      · rw [hdb, List.map_drop, hsnd', List.drop_drop]
      · rw [hdb, List.map_drop, hfst', List.drop_range']
        congr 1 <;> omega
  · have hcoin' : q.1 = false := by simpa using hcoin
    refine ⟨k, by omega, hz, by omega, ?_, ?_, ?_⟩
    · intro hall'
      have := hall' q (by simp)
      simp [hcoin'] at this
    · simpa [rPublish, hcoin'] using hsnd'
    · simpa [rPublish, hcoin'] using hfst'

theorem RInv_foldl (size : Nat) (qs ps : List (Bool × Update)) (st : RSt)
    (h : RInv size ps st) : RInv size (ps ++ qs) (qs.foldl (rPublish size) st) := by
  induction qs generalizing ps st with
  | nil => simpa using h
  | cons q qs ih =>
    have := ih (ps ++ [q]) (rPublish size st q) (RInv_step size ps st q h)
    simpa using this

theorem rRun_inv (size : Nat) (ps : List (Bool × Update)) : RInv size ps (rRun size ps) := by
  have := RInv_foldl size ps [] {} (RInv_init size)
  simpa [rRun] using this

theorem negotiate_go_found (r : Str) (db : List (Nat × Update)) (last : Str) (i : Nat)
    (h : db.findIdx? (fun e => e.2.id == r) = some i) :
    negotiate.go r db last = (r, (db.drop (i + 1)).map (·.2)) := by
  induction db generalizing last i with
  | nil => simp at h
  | cons e rest ih =>
    rw [List.findIdx?_cons] at h
    unfold negotiate.go
    by_cases hp : (e.2.id == r) = true
    · simp only [hp, if_true] at h ⊢
      cases h; simp
    · simp only [hp] at h ⊢
      cases hf : List.findIdx? (fun e => e.2.id == r) rest with
      | none => simp [hf] at h
      | some j =>
        simp [hf] at h
        subst h
        simpa using ih e.2.id j hf

theorem negotiate_go_not_found (r : Str) (db : List (Nat × Update)) (last : Str)
    (h : db.findIdx? (fun e => e.2.id == r) = none) :
    negotiate.go r db last = ((match db.getLast? with | some e => e.2.id | none => last), []) := by
  induction db generalizing last with
  | nil => simp [negotiate.go]
  | cons e rest ih =>
    rw [List.findIdx?_cons] at h
    unfold negotiate.go
    by_cases hp : (e.2.id == r) = true
    · simp [hp] at h
    · simp only [hp] at h ⊢
      have hf : List.findIdx? (fun e => e.2.id == r) rest = none := by
        cases hf : List.findIdx? (fun e => e.2.id == r) rest with
        | none => rfl
        | some j => simp [hf] at h
      rw [ih e.2.id hf]
      cases rest with
      | nil => simp
      | cons a t =>
        rw [List.getLast?_cons_cons]
        cases hl : (a :: t).getLast? with
        | none => simp at hl
        | some x => rfl

theorem negotiate_of_findIdx (db : List (Nat × Update)) (r : Str) (hr : r ≠ earliest) (i : Nat)
    (h : db.findIdx? (fun e => e.2.id == r) = some i) :
    negotiate db r = (r, (db.drop (i + 1)).map (·.2)) := by
  unfold negotiate
  have : (r == earliest) = false := by simpa using hr
  rw [this]
  exact negotiate_go_found r db earliest i h

/-- With pairwise distinct ids the first index of a stored id is its position. -/
theorem firstIdx_of_nodup (db : List (Nat × Update)) (hn : (db.map (·.2.id)).Nodup)
    (i : Nat) (e : Nat × Update) (he : db[i]? = some e) :
    db.findIdx? (fun x => x.2.id == e.2.id) = some i := by
  induction db generalizing i with
  | nil => simp at he
  | cons a rest ih =>
    rw [List.map_cons, List.nodup_cons] at hn
    rw [List.findIdx?_cons]
    cases i with
    | zero =>
      simp at he; subst he; simp
    | succ j =>
      simp only [List.getElem?_cons_succ] at he
      have hmem : e.2.id ∈ rest.map (·.2.id) :=
        List.mem_map.mpr ⟨e, List.mem_of_getElem? he, rfl⟩
      have hne : (a.2.id == e.2.id) = false := by
        apply beq_false_of_ne
        intro heq; rw [heq] at hn; exact hn.1 hmem
      rw [hne, ih hn.2 j he]
      simp

/-! ### retention (C10) -/

theorem rRun_suffix (size : Nat) (ps : List (Bool × Update)) :
    ∃ k, ((rRun size ps).db.map (·.2)) = (rRun size ps).acc.drop k ∧
         ((rRun size ps).db.map (·.1)) = List.range' (k + 1) ((rRun size ps).acc.length - k) := by
  obtain ⟨hacc, _, k, _, _, _, _, hsnd, hfst⟩ := rRun_inv size ps
  refine ⟨k, ?_, ?_⟩
  · rw [hacc]; exact hsnd
  · rw [hacc, List.length_map]; exact hfst

theorem rRun_acc (size : Nat) (ps : List (Bool × Update)) :
    (rRun size ps).acc = ps.map (·.2) ∧ (rRun size ps).seq = ps.length :=
  ⟨(rRun_inv size ps).1, (rRun_inv size ps).2.1⟩

theorem rRun_db_length (size : Nat) (ps : List (Bool × Update)) (k : Nat)
    (hfst : (rRun size ps).db.map (·.1) = List.range' (k + 1) (ps.length - k)) :
    (rRun size ps).db.length = ps.length - k := by
  have := congrArg List.length hfst
  simpa using this

theorem rRun_ge_min (size : Nat) (hs : 0 < size) (ps : List (Bool × Update)) :
    min ps.length size ≤ (rRun size ps).db.length := by
  have _ := hs
  obtain ⟨_, _, k, hk, _, hle, _, _, hfst⟩ := rRun_inv size ps
  rw [rRun_db_length size ps k hfst]
  omega

theorem rRun_eq_min (size : Nat) (hs : 0 < size) (ps : List (Bool × Update))
    (hc : ∀ p ∈ ps, p.1 = true) :
    (rRun size ps).db.length = min ps.length size := by
  obtain ⟨_, _, k, hk, _, hle, hall, _, hfst⟩ := rRun_inv size ps
  rw [rRun_db_length size ps k hfst, hall hc hs]
  omega

theorem rRun_zero (ps : List (Bool × Update)) :
    (rRun 0 ps).db.map (·.2) = ps.map (·.2) := by
  obtain ⟨_, _, k, _, hz, _, _, hsnd, _⟩ := rRun_inv 0 ps
  rw [hsnd, hz rfl]; rfl

theorem rRun_replay (size : Nat) (ps : List (Bool × Update))
    (huniq : ((ps.map (·.2)).map (·.id)).Nodup) (hne : ∀ p ∈ ps, p.2.id ≠ earliest)
    (i : Nat) (e : Nat × Update) (he : (rRun size ps).db[i]? = some e) :
    negotiate (rRun size ps).db e.2.id = (e.2.id, (ps.map (·.2)).drop e.1) := by
  obtain ⟨_, _, k, hk, _, _, _, hsnd, hfst⟩ := rRun_inv size ps
  have hlen := rRun_db_length size ps k hfst
  have hi : i < (rRun size ps).db.length := by
    rcases List.getElem?_eq_some_iff.mp he with ⟨h, _⟩; exact h
  -- the stored ids are pairwise distinct
  have hn : ((rRun size ps).db.map (·.2.id)).Nodup := by
    have : (rRun size ps).db.map (·.2.id) = (((ps.map (·.2)).drop k).map (·.id)) := by
      rw [← hsnd, List.map_map]; rfl
    rw [this, List.map_drop]
    exact List.Nodup.sublist (List.drop_sublist _ _) huniq
  -- the key of the i-th entry
  have hkey : e.1 = k + 1 + i := by
    have h1 : ((rRun size ps).db.map (·.1))[i]? = some e.1 := by
      rw [List.getElem?_map, he]; rfl
    rw [hfst, List.getElem?_range' (by omega)] at h1
    simp at h1; omega
  -- the update is a published one
  have hmem : e.2 ∈ ps.map (·.2) := by
    have h2 : e.2 ∈ (rRun size ps).db.map (·.2) :=
      List.mem_map.mpr ⟨e, List.mem_of_getElem? he, rfl⟩
    rw [hsnd] at h2
    exact List.mem_of_mem_drop h2
  have hr : e.2.id ≠ earliest := by
    rcases List.mem_map.mp hmem with ⟨p, hp, hpe⟩
    rw [← hpe]; exact hne p hp
  rw [negotiate_of_findIdx _ _ hr i (firstIdx_of_nodup _ hn i e he), List.map_drop, hsnd,
    List.drop_drop, hkey]
  congr 2; omega

/-! ### negotiation (C08) -/

/-- Position of the first stored update with id `r`. -/
def firstIdx (db : List (Nat × Update)) (r : Str) : Option Nat := db.findIdx? (fun e => e.2.id == r)

theorem negotiate_found (db : List (Nat × Update)) (r : Str) (hr : r ≠ earliest) (i : Nat)
    (h : firstIdx db r = some i) : negotiate db r = (r, (db.drop (i + 1)).map (·.2)) :=
  negotiate_of_findIdx db r hr i h

theorem negotiate_not_found (db : List (Nat × Update)) (r : Str) (hr : r ≠ earliest)
    (h : firstIdx db r = none) :
    negotiate db r = ((match db.getLast? with | some e => e.2.id | none => earliest), []) := by
  unfold negotiate
  have : (r == earliest) = false := by simpa using hr
  rw [this]
  exact negotiate_go_not_found r db earliest h
theorem firstIdx_none_iff (db : List (Nat × Update)) (r : Str) :
    firstIdx db r = none ↔ r ∉ db.map (·.2.id) := by
  unfold firstIdx
  rw [List.findIdx?_eq_none_iff]
  constructor
  · intro h hm
    rcases List.mem_map.mp hm with ⟨e, he, rfl⟩
    have := h e he
    simp at this
  · intro h e he
    apply beq_false_of_ne
    intro heq
    exact h (List.mem_map.mpr ⟨e, he, heq⟩)

theorem firstIdx_some_of_mem (db : List (Nat × Update)) (r : Str) (hm : r ∈ db.map (·.2.id)) :
    ∃ i, firstIdx db r = some i := by
  cases hf : firstIdx db r with
  | some i => exact ⟨i, rfl⟩
  | none => exact absurd hm ((firstIdx_none_iff db r).mp hf)

theorem negotiate_fst_ne_of_not_mem (db : List (Nat × Update)) (r : Str) (hr : r ≠ earliest)
    (hm : r ∉ db.map (·.2.id)) : (negotiate db r).1 ≠ r ∧ (negotiate db r).2 = [] := by
  rw [negotiate_not_found db r hr ((firstIdx_none_iff db r).mpr hm)]
  refine ⟨?_, rfl⟩
  cases hl : db.getLast? with
  | none => exact fun h => hr h.symm
  | some e =>
    intro h
    exact hm (List.mem_map.mpr ⟨e, List.mem_of_getLast? hl, h⟩)

/-! ### `connect` (C08): what the subscription events leave untouched, and the decision -/

theorem dispatch_preserves (M : Str → Str → Bool) (st : HubSt) (u : Update) :
    (st.dispatch M u).1.cfg = st.cfg ∧ (st.dispatch M u).1.kind = st.kind ∧
    (st.dispatch M u).1.closed = st.closed := by
  unfold HubSt.dispatch
  split
  · exact ⟨rfl, rfl, rfl⟩
  · rename_i hc
    split
    rename_i u1 st1 heq
    have h1 : st1.cfg = st.cfg ∧ st1.kind = st.kind ∧ st1.closed = st.closed := by
      split at heq <;> (cases heq; exact ⟨rfl, rfl, rfl⟩)
    split <;> (rename_i hk; simp only; refine ⟨h1.1, ?_, h1.2.2⟩; first | exact h1.2.1 | rw [← h1.2.1, hk])

theorem evStep_preserves (M : Str → Str → Bool) (c : Conn) (active : Bool) (st : HubSt) (s : Subscription) :
    let st' := (match st.dispatch M (subscriptionUpdate s) with
      | (st', some _) => { st' with events := st'.events ++ [(c.label, s.topic, active)] }
      | (st', none) => st')
    st'.cfg = st.cfg ∧ st'.kind = st.kind ∧ st'.closed = st.closed := by
  intro st'
  have h := dispatch_preserves M st (subscriptionUpdate s)
  rcases hd : st.dispatch M (subscriptionUpdate s) with ⟨s1, o⟩
  rw [hd] at h
  simp only [st', hd]
  cases o <;> exact h

theorem subscriptionEvents_preserves (M : Str → Str → Bool) (st : HubSt) (c : Conn) (active : Bool) :
    (st.subscriptionEvents M c active).cfg = st.cfg ∧ (st.subscriptionEvents M c active).kind = st.kind ∧
    (st.subscriptionEvents M c active).closed = st.closed := by
  unfold HubSt.subscriptionEvents
  split
  · exact ⟨rfl, rfl, rfl⟩
  · rename_i hsub
    clear hsub
    generalize subDocsOf st.cfg M c [] active = l
    induction l generalizing st with
    | nil => exact ⟨rfl, rfl, rfl⟩
    | cons s l ih =>
      rw [List.foldl_cons]
      have g := evStep_preserves M c active st s
      simp only at g
      obtain ⟨h1, h2, h3⟩ := ih _
      exact ⟨h1.trans g.1, h2.trans g.2.1, h3.trans g.2.2⟩

theorem subscribeDecision_leid (cfg : HubCfg) (tok : Str → Option Claims) (r : SubReq)
    (c : Option Claims) (priv : List Str) (leid : Str)
    (h : subscribeDecision cfg tok r = .accepted c priv leid) :
    leid = requestedLEID cfg.compat7 r.leid := by
  unfold subscribeDecision at h
  generalize (if cfg.subKey = true then authorize cfg.minHeader cfg.minQuery tok r.auth [] else Except.ok none) = a at h
  cases a with
  | error e => simp at h
  | ok c' =>
    simp only at h
    split at h
    · cases h
    · split at h
      · cases h
      · injection h with _ _ h3; exact h3.symm

theorem subscribeDecision_refused (cfg : HubCfg) (tok : Str → Option Claims) (r : SubReq)
    (s : Nat) (b : Str) (h : subscribeDecision cfg tok r = .refused s b) : s ≠ 200 := by
  unfold subscribeDecision at h
  generalize (if cfg.subKey = true then authorize cfg.minHeader cfg.minQuery tok r.auth [] else Except.ok none) = a at h
  cases a with
  | error e =>
    simp only at h
    injection h with h1 _; omega
  | ok c' =>
    simp only at h
    split at h
    · injection h with h1 _; omega
    · split at h
      · injection h with h1 _; omega
      · cases h

/-! ### retention size changing between publications -/

/-- contiguity only: the retained history is a suffix of the accepted updates with consecutive keys -/
def RInvV (n : Nat) (st : RSt) : Prop :=
  st.acc.length = n ∧ st.seq = n ∧
  ∃ k, k ≤ n ∧ st.db.map (·.2) = st.acc.drop k ∧ st.db.map (·.1) = List.range' (k + 1) (n - k)

theorem RInvV_step (size n : Nat) (st : RSt) (q : Bool × Update) (h : RInvV n st) :
    RInvV (n + 1) (rPublish size st q) := by
  obtain ⟨hlen, hseq, k, hk, hsnd, hfst⟩ := h
  have hsnd' : (st.db ++ [(st.seq + 1, q.2)]).map (·.2) = (st.acc ++ [q.2]).drop k := by
    rw [List.map_append, List.drop_append_of_le_length (by omega), hsnd]; rfl
  have hfst' : (st.db ++ [(st.seq + 1, q.2)]).map (·.1) = List.range' (k + 1) (n + 1 - k) := by
    have : n + 1 - k = (n - k) + 1 := by omega
    rw [this, List.range'_concat, List.map_append, hfst, hseq]
    simp; omega
  refine ⟨by simp [rPublish, hlen], by simp [rPublish, hseq], ?_⟩
  by_cases hrun : (q.1 = true ∧ ¬ (size == 0 || size ≥ st.seq + 1) = true)
  · obtain ⟨hcoin, hsz⟩ := hrun
    have hsz' : 0 < size ∧ size < n + 1 := by simp at hsz; omega
    have hdb : (rPublish size st q).db
        = (st.db ++ [(st.seq + 1, q.2)]).drop (st.seq + 1 - size + 1 - (k + 1)) := by
      simp only [rPublish, hcoin, if_true, retain, hsz]
      exact filter_gt_keys _ _ _ _ hfst'
    refine ⟨k + (st.seq + 1 - size + 1 - (k + 1)), by omega, ?_, ?_⟩
    · rw [hdb, List.map_drop, hsnd', List.drop_drop]; simp [rPublish]
    · rw [hdb, List.map_drop, hfst', List.drop_range']
      congr 1 <;> omega
  · have hdb : (rPublish size st q).db = st.db ++ [(st.seq + 1, q.2)] := by
      by_cases hcoin : q.1 = true
      · have hsz : (size == 0 || size ≥ st.seq + 1) = true :=
          Classical.byContradiction fun hc => hrun ⟨hcoin, hc⟩
        simp [rPublish, hcoin, retain, hsz]
      · have : q.1 = false := by simpa using hcoin
        simp [rPublish, this]
    refine ⟨k, by omega, ?_, ?_⟩
    · rw [hdb, hsnd']; simp [rPublish]
    · rw [hdb, hfst']

theorem RInvV_foldl (qs : List (Nat × Bool × Update)) (n : Nat) (st : RSt) (h : RInvV n st) :
    RInvV (n + qs.length) (qs.foldl (fun st p => rPublish p.1 st p.2) st) := by
  induction qs generalizing n st with
  | nil => simpa using h
  | cons q qs ih =>
    have := ih (n + 1) _ (RInvV_step q.1 n st q.2 h)
    simpa [List.foldl, Nat.add_assoc, Nat.add_comm 1] using this

/-- **Contiguity whatever the sizes**: also when the retention size changes between publications
    (restarts with another configuration on the same file), the retained history is a contiguous suffix
    of the accepted updates, stored under consecutive sequence numbers ending at the last one. -/
theorem rRunV_suffix (ps : List (Nat × Bool × Update)) :
    ∃ k, k ≤ ps.length ∧ (rRunV ps).db.map (·.2) = (rRunV ps).acc.drop k ∧
         (rRunV ps).db.map (·.1) = List.range' (k + 1) (ps.length - k) ∧ (rRunV ps).acc.length = ps.length := by
  have h := RInvV_foldl ps 0 {} ⟨rfl, rfl, 0, Nat.le_refl _, rfl, rfl⟩
  simp only [Nat.zero_add] at h
  obtain ⟨hlen, _, k, hk, h1, h2⟩ := h
  exact ⟨k, hk, h1, h2, hlen⟩


end Mercure
