// vh — the correspondence harness: drives the real code of /repo in-process and the Lean model
// (through the compiled driver) on the same inputs, and reports where they differ (DESIGN §5).
package main

import (
	"fmt"
	"os"
	"strconv"

	"verifharness/pkg/h"
)

type family func(c *h.Ctx, r *h.Report)

var families = map[string]struct {
	prop string
	run  family
}{}

func register(name, prop string, f family) {
	families[name] = struct {
		prop string
		run  family
	}{prop, f}
}

func main() {
	if len(os.Args) < 3 {
		fmt.Fprintln(os.Stderr, "usage: vh <family> <report.json> [--replay file]")
		os.Exit(2)
	}
	if os.Args[1] == "race-child" && len(os.Args) == 4 {
		seed, _ := strconv.ParseUint(os.Args[3], 10, 64)
		raceChild(os.Args[2], seed)

		return
	}
	if os.Args[1] == "crash-child" && len(os.Args) == 6 {
		size, _ := strconv.Atoi(os.Args[3])
		n, _ := strconv.Atoi(os.Args[4])
		k, _ := strconv.Atoi(os.Args[5])
		crashChild(os.Args[2], size, n, k)

		return
	}
	name, out := os.Args[1], os.Args[2]
	f, ok := families[name]
	if !ok {
		fmt.Fprintln(os.Stderr, "unknown family", name)
		os.Exit(2)
	}
	seed := uint64(1)
	if s := os.Getenv("VERIF_SEED"); s != "" {
		if v, err := strconv.ParseUint(s, 10, 64); err == nil {
			seed = v
		}
	}
	tier := os.Getenv("VERIF_TIER")
	if tier == "" {
		tier = "quick"
	}
	c := &h.Ctx{Seed: seed, Tier: tier, Rand: h.NewRand(seed)}
	for i := 3; i+1 < len(os.Args); i++ {
		if os.Args[i] == "--replay" {
			c.Replay = os.Args[i+1]
		}
	}
	c.Driver = h.StartDriver()
	r := h.NewReport(f.prop, name, seed, tier)
	f.run(c, r)
	r.DriverLines = c.Driver.N
	c.Driver.Close()
	r.Write(out)
	fmt.Printf("family=%s property=%s evaluations=%d distinct_nontrivial=%d disagreements=%d violations=%d\n",
		name, f.prop, r.Evaluations, r.DistinctNontrivial, len(r.Disagreements), len(r.Violations))
}
