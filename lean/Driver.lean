import Mercure.Model.Wire
import Mercure.Model.Selector
import Mercure.Model.SubList
import Mercure.Model.Subscriber
import Mercure.Model.Publish
import Mercure.Model.Subscribe
import Mercure.Model.Hub
import Mercure.Model.Retention
import Mercure.Model.BoltStore
import Mercure.Model.Template
import Mercure.Model.Form
import Mercure.Model.Claims
import Mercure.Model.Token
import Mercure.Model.Sys
import Mercure.Model.Timed
import Mercure.Model.Config
import Mercure.Model.TransportCfg
import Mercure.Generated.Facts
import Std.Data.HashMap
/-
  Driver — one operation per input line, one canonical answer per line (DESIGN §5.1).
-/
open Mercure Mercure.Wire

structure Oracle where
  valid   : Std.HashMap Str Bool := {}
  expands : Std.HashMap (Str × Str) Bool := {}

/-- The template answers the driver computes with are the *model's own* (`Model/Template`): the library's
    answers the harness sends (`or.valid`, `or.exp`) are no longer loaded, they are **checked** against the
    model on arrival (a difference is answered `or-mismatch …`, a correspondence break of its own class). The
    two maps only memoise the model's answers for the pairs the harness announced. -/
def Oracle.toT (o : Oracle) : TemplateOracle :=
  { valid := fun s => match o.valid.get? s with
      | some b => b
      | none => Template.oracle.valid s,
    expands := fun s t => match o.expands.get? (s, t) with
      | some b => b
      | none => Template.oracle.expands s t }

structure SubSpec where
  sels : List Str
  allowed : List Str
  deriving Repr

/-- Token facts as recomputed by the harness's own decoder/verifier (one signature verdict per role). -/
structure TokFacts where
  wellFormed : Bool
  alg : Str
  sigPub : Bool
  sigSub : Bool
  expOk : Bool
  nbfOk : Bool
  claims : Claims

def optList (s : String) : Option (Option (List Str)) :=
  if s == "~" then some none else (unhexList s).map some

def optStr (s : String) : Option (Option Str) :=
  if s == "~" then some none else (unhex s).map some

structure DSt where
  cfg : HubCfg := {}
  toks : Std.HashMap Str TokFacts := {}
  oracle : Oracle := {}
  store  : Store := Store.new 0 0
  sf     : SkipFilter Nat := SkipFilter.new 0
  sfSubs : Std.HashMap Nat SubSpec := {}
  sfIds  : Std.HashMap Nat Nat := {}     -- harness label ↦ skipfilter id
  hub    : HubSt := { cfg := {}, kind := .local }
  sys    : Sys.Sys := Sys.Sys.init Sys.Flags.found .bolt 0 [] []
  ret    : RSt := {}
  retSize : Nat := 0
  bs      : BoltStore.St := {}
  bsSize  : Nat := 0
  bsDebug : Bool := false

def sfTest (st : DSt) (label : Nat) (key : Str) : Bool :=
  match st.sfSubs.get? label with
  | none => false
  | some sp =>
    let (ts, p) := decode key
    matchTopics (matchSpec st.oracle.toT) sp.sels sp.allowed ts p

def DSt.tok (st : DSt) (pubRole : Bool) (s : Str) : Option Claims :=
  match st.toks.get? s with
  | none => none
  | some t =>
    validate (if pubRole then st.cfg.pubAlg else st.cfg.subAlg)
      { wellFormed := t.wellFormed, alg := t.alg, sigOk := if pubRole then t.sigPub else t.sigSub,
        expOk := t.expOk, nbfOk := t.nbfOk, claims := t.claims }

def parseAuthReq (isPost hdrs query cookie origin referer refOrigin : String) : Option AuthReq := do
  let h ← optList hdrs
  let q ← optList query
  let c ← optStr cookie
  let o ← unhex origin
  let r ← unhex referer
  let ro ← optStr refOrigin
  pure { authHeaders := h, queryAuth := q, cookie := c, isPost := bool isPost, origin := o, referer := r, refererOrigin := ro }

def showAuthErr : AuthErr → String
  | .invalidHeader => "invalidHeader" | .invalidQuery => "invalidQuery" | .invalidJWT => "invalidJWT"
  | .noOrigin => "noOrigin" | .badReferer => "badReferer" | .originNotAllowed => "originNotAllowed"

def showAuth : Except AuthErr (Option Claims) → String
  | .error e => "err:" ++ showAuthErr e
  | .ok none => "anon"
  | .ok (some c) => "ok:" ++ hex c.mercure.payload

def showUpd (u : Update) : String :=
  s!"{hex u.id}/{hex u.type}/{u.retry}/{hex (normaliseEOL u.data)}"

def showConn (c : Conn) : String :=
  s!"{c.label}:{showBool c.done}:[{" ".intercalate (c.written.map showUpd)}]"

def showObs (h : HubSt) : String :=
  s!"conns={";".intercalate (h.conns.map showConn)} index={" ".intercalate (h.index.map toString)} last={hex h.lastEventID} metrics={h.metrics.total},{h.metrics.gauge},{h.metrics.updates}"

def showDoc (d : Subscription) : String :=
  s!"{hex d.id},{hex d.subscriber},{hex d.topic},{showBool d.active},{hex d.payload}"

def showApi (r : ApiResp) : String :=
  s!"{r.status} last={hex r.lastEventID} docs={";".intercalate (r.docs.map showDoc)}"


/-! raw byte strings (Bolt keys are not valid UTF-8) -/
def hexRaw (bs : List UInt8) : String :=
  String.ofList (bs.flatMap (fun b => [hexDigit (b.toNat / 16), hexDigit (b.toNat % 16)]))

def showUpdFull (u : Update) : String :=
  s!"{hex u.id}/{hexList u.topics}/{showBool u.priv}/{hex u.data}/{hex u.type}/{u.retry}"

def showRespBytes : Option (List UInt8) → String
  | none => "~"
  | some bs => "=" ++ hexRaw bs


def unhexRaw (s : String) : Option (List UInt8) := (unhexBytes s.toList ByteArray.empty).map (·.toList)

namespace SysShow
open Mercure.Sys
def resp : Resp → String | .earliest => "earliest" | .id n => s!"u{n}"
def upds (l : List Upd) : String := ",".intercalate (l.map (fun u => s!"u{u.id}"))
def ret : Ret → String
  | .ok => "ok" | .errClosed => "closed" | .errDb => "dberr"
  | .listed l ss => s!"listed:{resp l}:{",".intercalate (ss.map toString)}"
  | .got (some u) _ => s!"got:u{u.id}" | .got none o => s!"got:-:{showBool o}"
def threadLabel (σ : Sys.Sys) (t : Thread) : String :=
  match t.stack with
  | fr :: _ => fr.label σ.flags σ.tr.kind
  | [] => "done:" ++ (match t.ret with | some r => ret r | none => "?")
def sub (b : Sub) : String :=
  s!"recv=[{upds b.received}] out=[{upds b.out}] closed={showBool b.outClosed} disc={showBool b.disconnected} ready={showBool b.ready} lq=[{upds b.liveQueue}] resp={match b.resp with | some r => resp r | none => "-"}"
def obs (σ : Sys.Sys) : String :=
  s!"subs={";".intercalate (σ.subs.map sub)} index={",".intercalate (σ.tr.index.map toString)} db={",".intercalate (σ.tr.db.map (fun e => s!"{e.1}:u{e.2.id}"))} last={resp σ.tr.lastId} lastSeq={σ.tr.lastSeq} closed={showBool σ.tr.closedCh} panic={match σ.panic with | some p => p | none => "-"}"
end SysShow

def parseFlags (s : String) : Option Sys.Flags :=
  match s.toList.map (· == '1') with
  | [a, b, c, d, e, f] => some ⟨a, b, c, d, e, f⟩
  | _ => none

def natList (s : String) : List Nat := if s == "-" then [] else (s.splitOn ",").filterMap String.toNat?

namespace CfgWire
open Mercure.Config
def kv (fields : List String) : Std.HashMap String String :=
  fields.foldl (fun m f => match f.splitOn "=" with | k :: v :: _ => m.insert k v | _ => m) {}
def keyClass (s : String) : KeyClass :=
  if s == "text" then .text else if s == "rsa" then .rsaPem else if s == "ec" then .ecPem else if s == "ed" then .edPem else .absent
def optNat (s : Option String) : Option Nat := s.bind String.toNat?
def optStr (s : Option String) : Option Str := match s with | some v => if v == "-" then none else unhex v | none => none
def origins (s : Option String) : List Origin :=
  match s with
  | none => []
  | some v => if v == "-" then [] else (v.splitOn ",").filterMap (fun o => match o.splitOn ":" with
      | [t, ok] => (unhex t).map (fun t => { text := t, valid := ok == "1" }) | _ => none)
def showErr : Err → String
  | .noPublisherKey => "noPublisherKey" | .noSubscriberKey => "noSubscriberKey" | .badPublisherKey => "badPublisherKey"
  | .badSubscriberKey => "badSubscriberKey" | .badOrigin => "badOrigin" | .badVersion => "badVersion" | .badDirective => "badDirective"
def showEff : Except Err Effective → String
  | .error e => "err:" ++ showErr e
  | .ok e => s!"ok anon={showBool e.anonymous} subs={showBool e.subscriptions} wt={e.wt} dt={e.dt} hb={e.hb} pubAlg={hex e.pubAlg} subAlg={match e.subAlg with | some a => hex a | none => "-"} porigins={hexList e.publishOrigins} corigins={hexList e.corsOrigins} cookie={hex e.cookieName} compat7={showBool e.compat7}"
def floatArg (s : Option String) : Option TransportCfg.FloatArg :=
  match s with
  | none => none
  | some v => if v == "-" then none else match v.splitOn ":" with
    | [ok, c] => (unhex c).map (fun c => { valid := ok == "1", canon := c })
    | _ => none
def showTErr : TransportCfg.Err → String
  | .badSize => "badSize" | .badFrequency => "badFrequency" | .missingPath => "missingPath"
  | .noSuchTransport => "noSuchTransport" | .missingArg => "missingArg"
def showTEff : Except TransportCfg.Err TransportCfg.Eff → String
  | .error e => "err:" ++ showTErr e
  | .ok e => match e.kind with
    | .local_ => "ok kind=local"
    | .bolt => s!"ok kind=bolt path={hex e.path} bucket={hex e.bucket} size={e.size} freq={hex e.freq}"
end CfgWire

def step (st : DSt) (line : String) : DSt × String :=
  let M := matchSpec st.oracle.toT
  match line.splitOn "\t" with
  | ["sys.new", kind, size, flags] =>
    match size.toNat?, (if flags == "facts" then some Facts.sysFlags else parseFlags flags) with
    | some sz, some fl => ({ st with sys := Sys.Sys.init fl (if kind == "bolt" then .bolt else .local) sz [] [] }, "ok")
    | _, _ => (st, "bad-op")
  | ["sys.sub", topics, req, cap] =>
    match cap.toNat? with
    | some c =>
      let r : Sys.Req := if req == "-" then .none else if req == "e" then .earliest else .id (req.toNat?.getD 0)
      ({ st with sys := { st.sys with subs := st.sys.subs ++ [{ topics := natList topics, req := r, cap := c }] } }, "ok")
    | none => (st, "bad-op")
  | "sys.op" :: op :: args =>
    let o : Option Sys.Op := match op, args.map String.toNat? with
      | "dispatch", [some id, some tp] => some (.dispatch ⟨id, tp⟩)
      | "add", [some s] => some (.add s) | "remove", [some s] => some (.remove s)
      | "close", [] => some .close | "list", [] => some .list
      | "disconnect", [some s] => some (.disconnect s) | "recv", [some s] => some (.recv s)
      | _, _ => none
    match o with
    | some o => ({ st with sys := { st.sys with threads := st.sys.threads ++ [{ op := o, stack := o.start }] } }, "ok")
    | none => (st, "bad-op")
  | ["sys.labels"] => (st, " ".intercalate (st.sys.threads.map (SysShow.threadLabel st.sys)))
  | ["sys.step", i] =>
    match i.toNat? with
    | some i =>
      let r := Sys.step st.sys i
      let lbl := match r.σ.threads[i]? with | some t => SysShow.threadLabel r.σ t | none => "?"
      ({ st with sys := r.σ }, s!"moved={showBool r.moved} next={lbl} panic={match r.σ.panic with | some p => p | none => "-"}")
    | none => (st, "bad-op")
  | ["sys.runall"] =>
    -- sequential set-up: run every thread to completion, in order
    let n := st.sys.threads.length
    let σ := (List.range n).foldl (fun σ i => (List.range 400).foldl (fun σ _ => (Sys.step σ i).σ) σ) st.sys
    ({ st with sys := { σ with threads := [] } }, "ok")
  | ["sys.seqsteps", n] =>
    -- sequential execution: thread 0 to completion, then thread 1, …; stop after n steps in total
    match n.toNat? with
    | some n =>
      let rec go (fuel : Nat) (σ : Sys.Sys) (i : Nat) (left : Nat) : Sys.Sys :=
        match fuel, left with
        | 0, _ => σ
        | _, 0 => σ
        | fuel + 1, left + 1 =>
          match σ.threads[i]? with
          | none => σ
          | some t => if t.stack.isEmpty then go fuel σ (i + 1) (left + 1) else go fuel (Sys.step σ i).σ i left
      ({ st with sys := go (n + st.sys.threads.length + 4) st.sys 0 n }, "ok")
    | none => (st, "bad-op")
  | ["sys.restart"] => ({ st with sys := Sys.restart st.sys [] [] }, "ok")
  | ["sys.clear"] => ({ st with sys := { st.sys with subs := [], threads := [] } }, "ok")
  | ["sys.obs"] => (st, SysShow.obs st.sys)
  | ["timed", wt, dt, hb, exp, arr, close, horizon] =>
    match wt.toNat?, dt.toNat?, hb.toNat?, horizon.toNat? with
    | some wt, some dt, some hb, some hz =>
      let arrivals : List (Nat × Nat) := if arr == "-" then [] else (arr.splitOn ",").filterMap (fun p =>
        match p.splitOn ":" with | [t, i] => (match t.toNat?, i.toNat? with | some t, some i => some (t, i) | _, _ => none) | _ => none)
      -- every trace the handler can produce, one per resolution of same-instant races (`Timed.runAll`,
      -- proved sound and complete for `runCh` over all choices): the harness accepts any of them
      let trs := (Timed.runAll { wt, dt, hb, exp := exp.toNat? } arrivals close.toNat? hz).eraseDups
      let showTr (tr : List (Nat × Timed.Ev)) : String := " ".intercalate (tr.map (fun (t, e) => s!"{t}:" ++ (match e with
        | .comment => "c" | .event i => s!"e{i}" | .failed => "fail" | .selfClose => "self" | .clientClose => "client" | .endWrite => "endwrite")))
      (st, " | ".intercalate (trs.map showTr))
    | _, _, _, _ => (st, "bad-op")
  | "cfg.caddy" :: fields =>
    let m := CfgWire.kv fields
    let c : Config.Caddy := {
      anonymous := m.get? "anon" == some "1", subscriptions := m.get? "subs" == some "1",
      wt := CfgWire.optNat (m.get? "wt"), dt := CfgWire.optNat (m.get? "dt"), hb := CfgWire.optNat (m.get? "hb"),
      pubKey := CfgWire.keyClass ((m.get? "pubKey").getD ""), pubAlg := CfgWire.optStr (m.get? "pubAlg"),
      subKey := CfgWire.keyClass ((m.get? "subKey").getD ""), subAlg := CfgWire.optStr (m.get? "subAlg"),
      publishOrigins := CfgWire.origins (m.get? "porigins"), corsOrigins := CfgWire.origins (m.get? "corigins"),
      cookieName := CfgWire.optStr (m.get? "cookie"), compat := CfgWire.optNat (m.get? "compat"),
      badArgs := m.get? "bad" == some "1" }
    (st, CfgWire.showEff (Config.provisionCaddy c))
  | "cfg.transport" :: fields =>
    let m := CfgWire.kv fields
    let str (k : String) : Str := ((m.get? k).bind unhex).getD []
    let dir : Option TransportCfg.Directive :=
      match m.get? "dir" with
      | some "local" => some .local_
      | some "bolt" => some (.bolt { path := CfgWire.optStr (m.get? "path"), bucket := CfgWire.optStr (m.get? "bucket"),
                                     size := CfgWire.optStr (m.get? "size"), freq := CfgWire.floatArg (m.get? "freq") })
      | _ => none
    let url : Option TransportCfg.URL :=
      if m.get? "url" == some "1" then
        some { scheme := str "scheme", path := str "upath", host := str "host", size := str "usize", freq := str "ufreq",
               freqArg := (CfgWire.floatArg (m.get? "ufreqarg")).getD ⟨false, []⟩, bucket := str "ubucket" }
      else none
    -- what encoding/json makes of a size ≥ 2^53 (reported by the harness; consulted only then)
    let rt : Nat → Option Nat := fun _ => (m.get? "sizert").bind String.toNat?
    if m.get? "legacy" == some "1" then
      (st, CfgWire.showTEff (TransportCfg.provisionLegacyTransport (m.get? "defaults" == some "1") url))
    else
    -- MERCURE_TRANSPORT_URL in the process environment (fields prefixed with e)
    let env : Option TransportCfg.URL :=
      if m.get? "env" == some "1" then
        some { scheme := str "escheme", path := str "eupath", host := str "ehost", size := str "eusize", freq := str "eufreq",
               freqArg := (CfgWire.floatArg (m.get? "eufreqarg")).getD ⟨false, []⟩, bucket := str "eubucket" }
      else none
    (st, CfgWire.showTEff (TransportCfg.provisionCaddyTransportEnv rt dir url env))
  | "cfg.legacy" :: fields =>
    let m := CfgWire.kv fields
    let l : Config.Legacy := {
      defaults := m.get? "defaults" == some "1",
      jwtKey := CfgWire.keyClass ((m.get? "jwtKey").getD ""), jwtAlg := CfgWire.optStr (m.get? "jwtAlg"),
      pubKey := CfgWire.keyClass ((m.get? "pubKey").getD ""), pubAlg := CfgWire.optStr (m.get? "pubAlg"),
      subKey := CfgWire.keyClass ((m.get? "subKey").getD ""), subAlg := CfgWire.optStr (m.get? "subAlg"),
      anonymous := m.get? "anon" == some "1", subscriptions := m.get? "subs" == some "1",
      wt := CfgWire.optNat (m.get? "wt"), dt := CfgWire.optNat (m.get? "dt"), hb := CfgWire.optNat (m.get? "hb"),
      publishOrigins := CfgWire.origins (m.get? "porigins"), corsOrigins := CfgWire.origins (m.get? "corigins") }
    (st, CfgWire.showEff (Config.provisionLegacy Facts.legacyFlags l))
  | ["ret.new", size] =>
    match size.toNat? with
    | some sz => ({ st with ret := {}, retSize := sz }, "ok")
    | none => (st, "bad-op")
  | ["ret.resize", size] =>
    -- the hub restarted on the same file with another retention size
    match size.toNat? with
    | some sz => ({ st with retSize := sz }, "ok")
    | none => (st, "bad-op")
  | ["ret.pub", id, observed] =>
    -- acceptor mode: the cleanup coin is the runtime's; the observed key set must be one of the two outcomes
    match unhex id with
    | some id =>
      let u : Update := { id := id, topics := [], priv := false, data := [], type := [], retry := 0 }
      let a := rPublish st.retSize st.ret (true, u)
      let b := rPublish st.retSize st.ret (false, u)
      let obs := (observed.splitOn " ").filterMap String.toNat?
      if obs == a.db.map (·.1) then ({ st with ret := a }, "ok")
      else if obs == b.db.map (·.1) then ({ st with ret := b }, "ok")
      else (st, s!"bad: cleaned={a.db.map (·.1)} skipped={b.db.map (·.1)}")
    | none => (st, "bad-op")
  | ["store.new", size, debug] =>
    match size.toNat? with
    | some sz => ({ st with bs := {}, bsSize := sz, bsDebug := bool debug }, "ok")
    | none => (st, "bad-op")
  | ["store.pub", id, topics, priv, data, type, retry, keys, lastValue] =>
    -- acceptor for the cleanup coin only; keys and the new value are compared byte for byte
    match unhex id, unhexList topics, unhex data, unhex type, retry.toNat? with
    | some id, some topics, some data, some type, some retry =>
      let u : Update := { id := id, topics := topics, priv := bool priv, data := data, type := type, retry := retry }
      let a := BoltStore.persist st.bsSize st.bsDebug st.bs (true, u)
      let b := BoltStore.persist st.bsSize st.bsDebug st.bs (false, u)
      let showKeys := fun (s : BoltStore.St) => ",".intercalate (s.bucket.map (fun e => hexRaw e.1))
      let v := hex (Json.update st.bsDebug u)
      if v != lastValue then (st, s!"bad-value: model={v}")
      else if keys == showKeys a then ({ st with bs := a }, "ok")
      else if keys == showKeys b then ({ st with bs := b }, "ok")
      else (st, s!"bad-keys: cleaned={showKeys a} skipped={showKeys b}")
    | _, _, _, _, _ => (st, "bad-op")
  | ["store.scan", req] =>
    match unhex req with
    | some req =>
      let rq := if req == earliest then none else some (utf8Bytes req)
      let (resp, vs) := BoltStore.scan rq st.bs.seq st.bs.bucket
      match BoltStore.decodeAll vs with
      | some us =>
        -- the harness's subscriber has selector and claim "*": it matches every update that has a topic;
        -- an announced id that is the literal "earliest" reads like the "earliest" answer
        let resp := if resp == some (utf8Bytes earliest) then none else resp
        (st, s!"{showRespBytes resp}|{";".intercalate ((us.filter (·.topics != [])).map showUpdFull)}")
      | none => (st, "undecodable")
    | none => (st, "bad-op")
  | ["store.last"] =>
    (st, s!"{st.bs.seq} {showRespBytes (BoltStore.lastEventIdBytes st.bs)}")
  | ["store.dec", v] =>
    match unhex v with
    | some v =>
      match Json.parseUpdate v with
      | some (d, u) => (st, s!"{showBool d} {showUpdFull u}")
      | none => (st, "none")
    | none => (st, "bad-op")
  | ["store.str", v] =>
    -- a JSON string literal on its own (every spelling JSON allows)
    match unhex v with
    | some v =>
      match Json.parseStr v with
      | some (x, []) => (st, "=" ++ hex x)
      | _ => (st, "none")
    | none => (st, "bad-op")
  | ["tok.derive", t] =>
    match unhex t with
    | some t =>
      (match TokenBytes.derive t with
       | .outOfModel => (st, "out-of-model")
       | .malformed => (st, "malformed")
       | .ok a _ => (st, s!"ok alg={hex a}"))
    | none => (st, "bad-op")
  | ["claims.decode", p] =>
    -- json.Unmarshal(payload, &claims{}) by the model's own JSON parser and store rules (Model/Claims)
    match unhex p with
    | some p =>
      match ClaimsJson.decode p with
      | none => (st, "invalid")
      | some c =>
        let optShow : Option (List Str) → String
          | none => "~"
          | some l => hexList l
        let showM (m : ClaimsJson.M) : String := s!"{optShow m.publish}/{optShow m.subscribe}/{hex m.toClaim.payload}"
        let showD : Option (Nat × Bool) → String
          | none => "-"
          | some (n, false) => toString n
          | some (n, true) => s!"-{n}"
        (st, s!"m={showM c.mercure} ns={match c.namespaced with | none => "~" | some m => showM m} exp={showD c.exp} nbf={showD c.nbf}")
    | none => (st, "bad-op")
  | ["tpl.valid", sel] =>
    match unhex sel with
    | some sel => (st, showBool (Template.valid sel))
    | none => (st, "bad-op")
  | ["tpl.match", sel, topic] =>
    match unhex sel, unhex topic with
    | some sel, some topic =>
      (match Template.parse sel with
       | some items => (st, showBool (Template.matchTemplate items topic))
       | none => (st, "invalid"))
    | _, _ => (st, "bad-op")
  | ["form.parse", body] =>
    -- url.ParseQuery on raw bytes: the error flag and, per key in byte order of the keys, the values in order
    match unhexRaw body with
    | some b =>
      let (kvs, err) := Form.parseQuery b
      (st, s!"{showBool err}|{",".intercalate (kvs.map (fun kv => hexRaw kv.1 ++ "=" ++ hexRaw kv.2))}")
    | none => (st, "bad-op")
  | ["form.fields", body] =>
    match unhexRaw body with
    | some b =>
      match Form.fieldsOf b with
      | some f => (st, s!"{showBool f.formOk} {hexList f.topics} {hex f.retry} {showBool f.priv} {hex f.data} {hex f.id} {hex f.type}")
      | none => (st, "non-utf8")
    | none => (st, "bad-op")
  | ["sse.enc", data, id, type, retry] =>
    match unhex data, unhex id, unhex type, retry.toNat? with
    | some d, some i, some t, some r => (st, hex ({ data := d, id := i, type := t, retry := r } : Event).encode)
    | _, _, _, _ => (st, "bad-op")
  | ["sse.parse", stream] =>
    match unhex stream with
    | some s => (st, ";".intercalate ((parseSSE s).map (fun e =>
        s!"{hex e.id}/{hex e.type}/{match e.retry with | some r => toString r | none => "-"}/{hex e.data}")))
    | none => (st, "bad-op")
  | ["hub.new", kind, size] =>
    match size.toNat? with
    | some sz => ({ st with hub := { cfg := st.cfg, kind := if kind == "bolt" then .bolt else .local, size := sz,
                                     cap := Facts.outBufferLength } }, "ok")
    | none => (st, "bad-op")
  | ["hub.pub", isPost, hdrs, query, cookie, origin, referer, refOrigin, formOk, topics, retry, priv, data, id, type] =>
    match parseAuthReq isPost hdrs query cookie origin referer refOrigin, unhexList topics, unhex retry, unhex data, unhex id, unhex type with
    | some a, some topics, some retry, some data, some id, some type =>
      let r : PubReq := { auth := a, formOk := bool formOk, topics := topics, retryStr := retry, priv := bool priv,
                          data := data, id := id, type := type }
      let (h', resp) := st.hub.publish M (st.tok true) r
      ({ st with hub := h' }, s!"{resp.status} {hex resp.body}")
    | _, _, _, _, _, _ => (st, "bad-op")
  | ["hub.sub", label, isPost, hdrs, query, cookie, origin, referer, refOrigin, topics, lh, lq, ll] =>
    match label.toNat?, parseAuthReq isPost hdrs query cookie origin referer refOrigin, unhexList topics, unhex lh, unhex lq, optList ll with
    | some l, some a, some topics, some lh, some lq, some ll =>
      let (h', resp) := st.hub.connect M (st.tok false) l { auth := a, topics := topics, leid := { header := lh, query := lq, legacy := ll } }
      ({ st with hub := h' }, s!"{resp.status} {hex resp.body} leid={match resp.respLEID with | some x => hex x | none => "~"}")
    | _, _, _, _, _, _ => (st, "bad-op")
  | ["hub.subfail", label, isPost, hdrs, query, cookie, origin, referer, refOrigin, topics, lh, lq, ll] =>
    -- a registration whose AddSubscriber fails half-way (the harness injected a fault into the history)
    match label.toNat?, parseAuthReq isPost hdrs query cookie origin referer refOrigin, unhexList topics, unhex lh, unhex lq, optList ll with
    | some l, some a, some topics, some lh, some lq, some ll =>
      let (h', resp) := st.hub.connectFailing M (st.tok false) l { auth := a, topics := topics, leid := { header := lh, query := lq, legacy := ll } }
      ({ st with hub := h' }, s!"{resp.status} {hex resp.body} leid={match resp.respLEID with | some x => hex x | none => "~"}")
    | _, _, _, _, _, _ => (st, "bad-op")
  | ["hub.disc", label] =>
    match label.toNat? with
    | some l => ({ st with hub := st.hub.clientClose M l }, "ok")
    | none => (st, "bad-op")
  | ["hub.stall", label, b] =>
    match label.toNat? with
    | some l => ({ st with hub := st.hub.setStalled M l (bool b) }, "ok")
    | none => (st, "bad-op")
  | ["hub.failnext", label] =>
    match label.toNat? with
    | some l => ({ st with hub := st.hub.failNextWrite l }, "ok")
    | none => (st, "bad-op")
  | ["hub.close"] => ({ st with hub := st.hub.close M }, "ok")
  | ["hub.restart"] => ({ st with hub := st.hub.restart M }, "ok")
  | ["hub.obs"] => (st, showObs st.hub)
  | ["hub.api.list", isPost, hdrs, query, cookie, origin, referer, refOrigin, url, topic, inm] =>
    match parseAuthReq isPost hdrs query cookie origin referer refOrigin, unhex url, unhex topic, unhex inm with
    | some a, some url, some topic, some inm => (st, showApi (st.hub.apiList M (st.tok false) a url topic inm))
    | _, _, _, _ => (st, "bad-op")
  | ["hub.api.get", isPost, hdrs, query, cookie, origin, referer, refOrigin, url, topic, sub, inm] =>
    match parseAuthReq isPost hdrs query cookie origin referer refOrigin, unhex url, unhex topic, unhex sub, unhex inm with
    | some a, some url, some topic, some sub, some inm => (st, showApi (st.hub.apiGet M (st.tok false) a url topic sub inm))
    | _, _, _, _, _ => (st, "bad-op")
  | ["hub.cfg", pubAlg, subKey, subAlg, anon, origins, compat7, subs] =>
    match unhex pubAlg, unhex subAlg, unhexList origins with
    | some pa, some sa, some os =>
      ({ st with cfg := { pubAlg := pa, subKey := bool subKey, subAlg := sa, anonymous := bool anon,
                          publishOrigins := os, compat7 := bool compat7, subscriptions := bool subs,
                          minHeader := Facts.minHeaderLen, minQuery := Facts.minQueryLen,
                          spacePlus := Facts.idEscapeFn == "url.QueryEscape" },
                 toks := {} }, "ok")
    | _, _, _ => (st, "bad-op")
  | ["tok", t, wf, alg, sigPub, sigSub, expOk, nbfOk, pub, sub, payload, nsPresent, nsPub, nsSub, nsPayload, exp] =>
    match unhex t, unhex alg, optList pub, optList sub, unhex payload, optList nsPub, optList nsSub, unhex nsPayload with
    | some t, some alg, some pub, some sub, some payload, some nsPub, some nsSub, some nsPayload =>
      let c : Claims := { mercure := { publish := pub, subscribe := sub, payload := payload },
                          namespaced := if bool nsPresent then some { publish := nsPub, subscribe := nsSub, payload := nsPayload } else none,
                          exp := exp.toNat? }
      -- the facts announced by the harness's decoder are checked against the model's own reading of the token's
      -- bytes (Model/Token + Model/Claims: segmentation, base64url, header alg, claims decoding); a difference is
      -- answered `tok-mismatch …` (a correspondence break of its own class)
      let verdict : String :=
        match TokenBytes.derive t with
        | .outOfModel => "ok"
        | .malformed => if bool wf then "tok-mismatch model=malformed harness=well-formed" else "ok"
        | .ok a d =>
          if !bool wf then "tok-mismatch model=well-formed harness=malformed"
          else if a != alg then s!"tok-mismatch alg model={hex a} harness={hex alg}"
          else if d.mercure.publish != pub || d.mercure.subscribe != sub then "tok-mismatch plain claim lists"
          else if d.namespaced.isSome != bool nsPresent then "tok-mismatch namespaced claim presence"
          else if (match d.namespaced with | some m => m.publish != nsPub || m.subscribe != nsSub | none => false) then "tok-mismatch namespaced claim lists"
          else if (match d.exp, exp.toNat? with
                   | some (n, false), some ms => n * 1000 != ms
                   | none, some _ => true
                   | some (_, false), none => true
                   | _, _ => false) then s!"tok-mismatch exp harness={exp}"
          else "ok"
      ({ st with toks := st.toks.insert t { wellFormed := bool wf, alg := alg, sigPub := bool sigPub, sigSub := bool sigSub,
                                            expOk := bool expOk, nbfOk := bool nbfOk, claims := c } }, verdict)
    | _, _, _, _, _, _, _, _ => (st, "bad-op")
  | ["authz", role, isPost, hdrs, query, cookie, origin, referer, refOrigin] =>
    match parseAuthReq isPost hdrs query cookie origin referer refOrigin with
    | some r =>
      let pubRole := role == "p"
      (st, showAuth (authorize st.cfg.minHeader st.cfg.minQuery (st.tok pubRole) r
                      (if pubRole then st.cfg.publishOrigins else [])))
    | none => (st, "bad-op")
  | ["sub.decide", isPost, hdrs, query, cookie, origin, referer, refOrigin, topics, lh, lq, ll] =>
    match parseAuthReq isPost hdrs query cookie origin referer refOrigin, unhexList topics, unhex lh, unhex lq, optList ll with
    | some a, some topics, some lh, some lq, some ll =>
      match subscribeDecision st.cfg (st.tok false) { auth := a, topics := topics, leid := { header := lh, query := lq, legacy := ll } } with
      | .refused status body => (st, s!"{status} {hex body}")
      | .accepted c priv leid =>
        (st, s!"200 who={match c with | some c => "ok:" ++ hex c.mercure.payload | none => "anon"} private={hexList priv} leid={hex leid}")
    | _, _, _, _, _ => (st, "bad-op")
  | ["api.auth", isPost, hdrs, query, cookie, origin, referer, refOrigin, url] =>
    match parseAuthReq isPost hdrs query cookie origin referer refOrigin, unhex url with
    | some a, some url => (st, showBool (apiAuthorized st.cfg (matchSpec st.oracle.toT) (st.tok false) a url))
    | _, _ => (st, "bad-op")
  | ["pub", isPost, hdrs, query, cookie, origin, referer, refOrigin, formOk, topics, retry, priv, data, id, type] =>
    match parseAuthReq isPost hdrs query cookie origin referer refOrigin, unhexList topics, unhex retry, unhex data, unhex id, unhex type with
    | some a, some topics, some retry, some data, some id, some type =>
      let r : PubReq := { auth := a, formOk := bool formOk, topics := topics, retryStr := retry, priv := bool priv,
                          data := data, id := id, type := type }
      match publish st.cfg (matchSpec st.oracle.toT) (st.tok true) r with
      | .refused status body => (st, s!"{status} {hex body}")
      | .accepted u => (st, s!"200 id={hex u.id} topics={hexList u.topics} priv={showBool u.priv} retry={u.retry} type={hex u.type} data={hex u.data}")
    | _, _, _, _, _, _ => (st, "bad-op")
  | ["or.valid", s, v] =>
    match unhex s with
    | some s =>
      let m := Template.oracle.valid s
      ({ st with oracle := { st.oracle with valid := st.oracle.valid.insert s m } },
       if m == bool v then "ok" else s!"or-mismatch valid model={showBool m} library={v} sel={hex s}")
    | none => (st, "bad-op")
  | ["or.exp", s, t, v] =>
    match unhex s, unhex t with
    | some s, some t =>
      let m := Template.oracle.expands s t
      ({ st with oracle := { st.oracle with expands := st.oracle.expands.insert (s, t) m } },
       if m == bool v then "ok" else s!"or-mismatch expands model={showBool m} library={v} sel={hex s} topic={hex t}")
    | _, _ => (st, "bad-op")
  | ["or.reset"] => ({ st with oracle := {} }, "ok")
  -- C11
  | ["sel.new", cap, shards] =>
    match cap.toNat?, shards.toNat? with
    | some c, some n => ({ st with store := Store.new c n }, "ok")
    | _, _ => (st, "bad-op")
  | ["sel.match", t, s] =>
    match unhex t, unhex s with
    | some t, some s =>
      let (r, store') := Store.match st.oracle.toT Facts.matchKeySegs Facts.matchHitValidated st.store t s
      ({ st with store := store' }, s!"{showBool r} {showBool (matchSpec st.oracle.toT t s)}")
    | _, _ => (st, "bad-op")
  -- C05
  | ["enc", ts, p] =>
    match unhexList ts with
    | some ts => (st, hex (encode ts (bool p)))
    | none => (st, "bad-op")
  | ["dec", f] =>
    match unhex f with
    | some f => let (ts, p) := decode f; (st, s!"{hexList ts} {showBool p}")
    | none => (st, "bad-op")
  | ["sf.new", cap] =>
    match cap.toNat? with
    | some c => ({ st with sf := SkipFilter.new c, sfSubs := {}, sfIds := {} }, "ok")
    | none => (st, "bad-op")
  | ["sf.add", label, sels, allowed] =>
    match label.toNat?, unhexList sels, unhexList allowed with
    | some l, some sels, some allowed =>
      ({ st with sfIds := st.sfIds.insert l st.sf.next, sf := st.sf.add l,
                 sfSubs := st.sfSubs.insert l { sels, allowed } }, "ok")
    | _, _, _ => (st, "bad-op")
  | ["sf.remove", label] =>
    match label.toNat? with
    | some l =>
      match st.sfIds.get? l with
      | some id => ({ st with sf := st.sf.removeId id, sfIds := st.sfIds.erase l }, "ok")
      | none => (st, "ok")
    | none => (st, "bad-op")
  | ["sf.match", ts, p] =>
    match unhexList ts with
    | some ts =>
      let (found, sf') := st.sf.matchAny (sfTest st) (encode ts (bool p))
      ({ st with sf := sf' }, " ".intercalate (found.map (fun e => toString e.2)))
    | none => (st, "bad-op")
  | ["sf.walk"] => (st, " ".intercalate (st.sf.walkAll.map (fun e => toString e.2)))
  | _ => (st, "bad-op")

partial def loop (h : IO.FS.Stream) (out : IO.FS.Stream) (st : DSt) : IO Unit := do
  let line ← h.getLine
  if line.isEmpty then return ()
  let l := if line.endsWith "\n" then (line.dropEnd 1).toString else line
  let (st', o) := step st l
  out.putStrLn o
  out.flush
  loop h out st'

def main : IO Unit := do
  loop (← IO.getStdin) (← IO.getStdout) {}
