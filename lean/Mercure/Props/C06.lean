import Mercure.Lemmas.Hub
import Mercure.Model.Sys
import Mercure.Generated.Facts
/-
  C06 — Live delivery is exactly-once and in one consistent order.

  Two layers (see C07): operation level below; region level (every interleaving of concurrent
  publishers and subscribers: `fifo`, `bolt_stream_prefix_of_ideal`, `bolt_stream_complete`,
  `local_stream_prefix`, `local_stream_complete`) is added to this file when the proofs are
  complete (DESIGN.md §15); until then it is covered by the controlled-schedule correspondence and
  its oracles (no duplicate, contiguous run of the history, nothing missed at quiescence).
-/
namespace Mercure.C06
open Mercure

/-- Persistent transport: the stored history is exactly the sequence of accepted updates — the one
    total order every stream is a subsequence of — after any history of operations. -/
theorem history_is_the_accepted_order (M : Str → Str → Bool) (tokP tokS : Str → Option Claims)
    (cfg : HubCfg) (cap : Nat) (ops : List HubOp) :
    let st := HubSt.reach M tokP tokS cfg .bolt 0 cap ops
    st.db.map (·.2) = st.accepted :=
  Mercure.reach_db_accepted M tokP tokS cfg cap ops

/-- Everything written to a stream was handed to that connection exactly through the channel
    (nothing appears on a stream that was not enqueued for it). -/
theorem written_was_enqueued (M : Str → Str → Bool) (tokP tokS : Str → Option Claims)
    (cfg : HubCfg) (kind : Kind) (size cap : Nat) (ops : List HubOp) :
    ∀ c ∈ (HubSt.reach M tokP tokS cfg kind size cap ops).conns,
      ∀ u, (u ∈ c.written ∨ u ∈ c.out ∨ c.inflight = some u) → u ∈ c.enq :=
  Mercure.reach_written_enq M tokP tokS cfg kind size cap ops

/-- The obligation against /repo: on both transports the whole fan-out of an update happens under
    the exclusive transport lock (one publisher at a time ⇒ one order for every subscriber). -/
theorem repo_flags : Facts.sysFlags.localMatchLocked = true := by decide

end Mercure.C06

#print axioms Mercure.C06.history_is_the_accepted_order
#print axioms Mercure.C06.written_was_enqueued
#print axioms Mercure.C06.repo_flags
