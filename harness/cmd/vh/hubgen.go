package main

import (
	"encoding/json"
	"fmt"
	"net/url"

	"verifharness/internal/gen"
	"verifharness/internal/h"
)

func init() {
	register("hub", "C01", runHub)
}

type hubPool struct {
	topics []string // concrete topics
	sels   []string // selectors: literals equal to topics, templates covering topics, '*', non-matching
}

func mkPool(rr *h.Rand, o *gen.Oracle) hubPool {
	var p hubPool
	for i := 0; i < 2; i++ {
		t := gen.Template(rr)
		if o.Valid(t) {
			p.sels = append(p.sels, t)
			p.topics = append(p.topics, gen.Expand(rr, tplOf(t)), gen.Expand(rr, tplOf(t)))
		}
	}
	for i := 0; i < 3; i++ {
		l := "https://example.com/" + gen.Literal(rr, false)
		p.topics = append(p.topics, l)
		p.sels = append(p.sels, l)
	}
	p.sels = append(p.sels, "*", "https://example.com/none", "a b")
	p.topics = append(p.topics, "a b")
	p.topics = dedupe(p.topics)
	p.sels = dedupe(p.sels)

	return p
}

func claimsJSON(key string, sels []string, payload string) string {
	m := map[string]interface{}{key: sels}
	if sels == nil {
		m = map[string]interface{}{}
	}
	if payload != "" {
		m["payload"] = payload
	}
	b, _ := json.Marshal(map[string]interface{}{"mercure": m})

	return string(b)
}

func genHubCase(rr *h.Rand, o *gen.Oracle, focus string) hubCase {
	cs := hubCase{Cfg: hubCfg{PubAlg: "HS256", SubAlg: "HS256", Anonymous: rr.Chance(2, 3), Origins: []string{"https://allowed.example"},
		Subscriptions: rr.Chance(1, 3), Compat7: rr.Chance(1, 5), Bolt: rr.Bool()}}
	if cs.Cfg.Bolt && rr.Chance(1, 3) {
		cs.Size = uint64(1 + rr.Intn(5))
	}
	p := mkPool(rr, o)
	nops := 8 + rr.Intn(25)
	next := 0
	var live []int
	var ids []string
	pubN := 0
	for k := 0; k < nops; k++ {
		x := rr.Intn(100)
		switch {
		case x < 40: // publish
			form := url.Values{}
			nt := 1 + rr.Intn(3)
			for i := 0; i < nt; i++ {
				form.Add("topic", h.Pick(rr, p.topics))
			}
			switch rr.Intn(4) {
			case 0:
				form.Set("private", "")
			case 1:
				form.Set("private", "on")
			}
			if rr.Chance(5, 6) {
				id := fmt.Sprintf("id%d", pubN)
				form.Set("id", id)
			}
			pubN++
			form.Set("data", h.Pick(rr, []string{"", "d", "l1\nl2", "é\r\nx", "data: y\n"}))
			if rr.Chance(1, 4) {
				form.Set("type", h.Pick(rr, []string{"t", "message"}))
			}
			if rr.Chance(1, 6) {
				form.Set("retry", h.Pick(rr, []string{"5", "3000"}))
			}
			var claim []string
			switch rr.Intn(6) {
			case 0:
				claim = []string{h.Pick(rr, p.sels)}
			default:
				claim = []string{"*"}
			}
			op := hubOp{Op: "pub", Form: form, Claims: claimsJSON("publish", claim, ""), Carrier: h.Pick(rr, []string{"header", "header", "query", "cookie"})}
			if rr.Chance(1, 15) {
				op.Claims = ""
			}
			cs.Ops = append(cs.Ops, op)
			if form.Get("id") != "" {
				ids = append(ids, form.Get("id"))
			}
		case x < 65 || len(live) == 0: // subscribe
			op := hubOp{Op: "sub", Label: next}
			for i := 1 + rr.Intn(2); i > 0; i-- {
				op.Topics = append(op.Topics, h.Pick(rr, p.sels))
			}
			if focus == "events" && rr.Chance(1, 3) {
				op.Topics = []string{"/.well-known/mercure/subscriptions/{topic}/{subscriber}"}
			}
			switch rr.Intn(5) {
			case 0: // anonymous
			case 1:
				op.Claims = claimsJSON("subscribe", []string{"*"}, h.Pick(rr, []string{"", "who"}))
			case 2:
				op.Claims = claimsJSON("subscribe", nil, "p")
			default:
				var cl []string
				for i := 1 + rr.Intn(2); i > 0; i-- {
					cl = append(cl, h.Pick(rr, p.sels))
				}
				op.Claims = claimsJSON("subscribe", cl, "")
			}
			op.Carrier = h.Pick(rr, []string{"header", "query", "cookie"})
			if rr.Chance(1, 2) {
				var id string
				switch rr.Intn(5) {
				case 0:
					id = "earliest"
				case 1:
					id = "unknown-id"
				default:
					if len(ids) > 0 {
						id = h.Pick(rr, ids)
					} else {
						id = "earliest"
					}
				}
				switch rr.Intn(4) {
				case 0:
					op.LeidH = id
				case 1:
					op.LeidQ = id
				case 2:
					op.LeidL = []string{id}
				default:
					op.LeidH = id
					op.LeidQ = "other"
				}
			}
			if rr.Chance(1, 12) {
				op.Topics = nil
			}
			cs.Ops = append(cs.Ops, op)
			live = append(live, next)
			next++
		case x < 75:
			j := rr.Intn(len(live))
			cs.Ops = append(cs.Ops, hubOp{Op: "disc", Label: live[j]})
			live = append(live[:j], live[j+1:]...)
		case x < 80:
			cs.Ops = append(cs.Ops, hubOp{Op: "failnext", Label: h.Pick(rr, live)})
		case x < 84:
			cs.Ops = append(cs.Ops, hubOp{Op: "stall", Label: h.Pick(rr, live)})
		case x < 88:
			cs.Ops = append(cs.Ops, hubOp{Op: "unstall", Label: h.Pick(rr, live)})
		case x < 91:
			cs.Ops = append(cs.Ops, hubOp{Op: "restart"})
			live = nil
		case x < 93:
			cs.Ops = append(cs.Ops, hubOp{Op: "close"})
			live = nil
		default:
			if cs.Cfg.Subscriptions {
				op := hubOp{Op: h.Pick(rr, []string{"api.list", "api.list", "api.get"}), Claims: claimsJSON("subscribe", []string{"*"}, "")}
				if rr.Bool() || op.Op == "api.get" {
					op.Topic = h.Pick(rr, p.sels)
				}
				if op.Op == "api.get" && len(live) > 0 && rr.Chance(3, 4) {
					op.Sub = h.Itoa(h.Pick(rr, live))
				}
				switch rr.Intn(5) {
				case 0:
					op.Claims = ""
				case 1:
					op.Claims = claimsJSON("subscribe", []string{"https://example.com/none"}, "")
				case 2:
					op.Claims = claimsJSON("subscribe", []string{"/.well-known/mercure/subscriptions{/topic}{/subscriber}"}, "")
				}
				if rr.Chance(1, 6) && len(ids) > 0 {
					op.INM = h.Pick(rr, ids)
				}
				cs.Ops = append(cs.Ops, op)
			}
		}
	}

	return cs
}

func runHub(c *h.Ctx, r *h.Report) {
	r.Rule = "operation histories (8-32 ops) through the real Hub.ServeHTTP inside a synctest bubble (quiescence detected with synctest.Wait after every op), both transports, subscriptions on/off, anonymous on/off: publish (1-3 topics, private absent/empty/on, explicit or generated ids, credential in header/query/cookie), subscribe (selectors from a pool of literals, templates covering the topics, '*', non-matching; claims in {none, '*', absent, relative to the pool}; Last-Event-ID via header / query / legacy query in {earliest, unknown, stored id}), client disconnect, failing write, stalled writer, restart, close, subscription API. After every op the full observable state (every stream parsed by the harness's own SSE parser, index, last event id, metrics) is compared with the model. Non-trivial = case in which at least one private update was delivered to someone and withheld from someone else; distinct by content."
	o := gen.NewOracle()
	g := installCountingUUID()
	if c.Replay != "" {
		var rp struct {
			Case hubCase `json:"case"`
		}
		readReplay(c.Replay, &rp)
		runHubCase(c, r, o, rp.Case, g)

		return
	}
	for _, cs := range hubCorpus() {
		runHubCase(c, r, o, cs, g)
	}
	n := c.Scale(300, 8000)
	for i := 0; i < n; i++ {
		cs := genHubCase(c.Rand.Fork(), o, "")
		runHubCase(c, r, o, cs, g)
		r.Sample(cs)
	}
}

func hubOracles(hr *hubRun, cs hubCase, o *gen.Oracle) []h.Violation { return nil }

// hubCorpus: hand-written and minimised past cases, run first.
func hubCorpus() []hubCase {
	star := claimsJSON("publish", []string{"*"}, "")
	sub := claimsJSON("subscribe", []string{"*"}, "who")
	pub := func(id string) hubOp {
		return hubOp{Op: "pub", Form: url.Values{"topic": {"t"}, "id": {id}, "data": {"d"}}, Claims: star}
	}
	var out []hubCase
	for _, bolt := range []bool{false, true} {
		// a connection whose writer is stalled survives a restart and finishes afterwards
		out = append(out, hubCase{Cfg: hubCfg{PubAlg: "HS256", SubAlg: "HS256", Anonymous: true, Subscriptions: true, Bolt: bolt}, Ops: []hubOp{
			{Op: "sub", Label: 0, Topics: []string{"*"}, Claims: sub},
			{Op: "sub", Label: 1, Topics: []string{"t", "a b"}},
			{Op: "stall", Label: 1}, pub("x1"), pub("x2"), {Op: "restart"},
			{Op: "sub", Label: 2, Topics: []string{"*"}, Claims: sub, LeidQ: "earliest"},
			{Op: "unstall", Label: 1}, pub("x3"), {Op: "disc", Label: 2}, {Op: "close"}, pub("x4"),
			{Op: "sub", Label: 3, Topics: []string{"*"}},
		}})
		// failing write, then events for the others
		out = append(out, hubCase{Cfg: hubCfg{PubAlg: "HS256", SubAlg: "HS256", Anonymous: true, Subscriptions: true, Bolt: bolt}, Ops: []hubOp{
			{Op: "sub", Label: 0, Topics: []string{"/.well-known/mercure/subscriptions/{topic}/{subscriber}"}, Claims: sub},
			{Op: "sub", Label: 1, Topics: []string{"t"}},
			{Op: "failnext", Label: 1}, pub("y1"), pub("y2"),
			{Op: "api.list", Claims: sub}, {Op: "api.list", Claims: sub, Topic: "t"},
		}})
	}

	return out
}
