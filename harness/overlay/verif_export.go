//go:build verif

package mercure

// White-box accessors for the verification harness (/verif). This file is NOT part of the
// repository: it is injected at build time with `go build -tags verif -overlay`.

// VerifEncode exposes encode (on a copy: encode sorts its argument in place).
func VerifEncode(topics []string, private bool) string {
	cp := append([]string(nil), topics...)

	return encode(cp, private)
}

// VerifDecode exposes decode.
func VerifDecode(f string) ([]string, bool) { return decode(f) }

// VerifMatch exposes TopicSelectorStore.match.
func (tss *TopicSelectorStore) VerifMatch(topic, sel string) bool { return tss.match(topic, sel) }
