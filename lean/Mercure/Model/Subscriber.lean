import Mercure.Model.Auth
/-
  Mercure.Model.Subscriber — subscriber.go: MatchTopics, getSubscriptions, escaping of ids.
-/
namespace Mercure

structure MTSt where
  subscribed : Bool
  canAccess  : Bool

/-- One iteration of the loop of `MatchTopics` (subscriber.go:57-85). -/
def matchTopicsStep (M : Str → Str → Bool) (subscribedTopics allowedPrivate : List Str)
    (st : MTSt) (topic : Str) : MTSt :=
  { subscribed := if !st.subscribed then subscribedTopics.any (M topic) else st.subscribed,
    canAccess  := if !st.canAccess then allowedPrivate.any (M topic) else st.canAccess }

def matchTopics (M : Str → Str → Bool) (subscribedTopics allowedPrivate topics : List Str)
    (priv : Bool) : Bool :=
  let st := topics.foldl (matchTopicsStep M subscribedTopics allowedPrivate)
              { subscribed := false, canAccess := !priv }
  st.subscribed && st.canAccess

/-! ### url.QueryEscape / url.QueryUnescape (net/url, mode encodeQueryComponent) -/

def hexDigitUpper (n : Nat) : Char :=
  if n < 10 then Char.ofNat (48 + n) else Char.ofNat (55 + n)

def isUnreservedByte (b : Nat) : Bool :=
  (97 ≤ b && b ≤ 122) || (65 ≤ b && b ≤ 90) || (48 ≤ b && b ≤ 57) ||
  b == 45 || b == 95 || b == 46 || b == 126        -- - _ . ~

/-- escape one byte. `spacePlus` is a regenerated fact: url.QueryEscape writes ' ' as '+'. -/
def escapeByte (spacePlus : Bool) (b : Nat) : Str :=
  if isUnreservedByte b then [Char.ofNat b]
  else if b == 32 && spacePlus then ['+']
  else ['%', hexDigitUpper (b / 16), hexDigitUpper (b % 16)]

def queryEscape (spacePlus : Bool) (s : Str) : Str :=
  ((utf8Bytes s).map (fun b => escapeByte spacePlus b.toNat)).flatten

/-! url.QueryUnescape at byte level: '+' ↦ space, %XX ↦ byte, anything malformed ↦ error. -/

def unhexByte (c : Char) : Option Nat :=
  if '0' ≤ c && c ≤ '9' then some (c.toNat - 48)
  else if 'a' ≤ c && c ≤ 'f' then some (c.toNat - 87)
  else if 'A' ≤ c && c ≤ 'F' then some (c.toNat - 55)
  else none

def queryUnescapeBytes : Str → Option (List Nat)
  | [] => some []
  | '%' :: a :: b :: rest =>
    match unhexByte a, unhexByte b, queryUnescapeBytes rest with
    | some x, some y, some r => some ((x * 16 + y) :: r)
    | _, _, _ => none
  | '%' :: _ => none
  | '+' :: rest => (queryUnescapeBytes rest).map (32 :: ·)
  | c :: rest => (queryUnescapeBytes rest).map (c.toNat :: ·)

/-- Escaping at byte level (what `queryEscape` does before the bytes are read back as text). -/
def queryEscapeBytes (spacePlus : Bool) (bs : List Nat) : Str :=
  (bs.map (escapeByte spacePlus)).flatten

/-- RFC 3986 percent-encoded text: unreserved characters and %XX triplets (upper-case hex) only. -/
def pctEncoded : Str → Bool
  | [] => true
  | '%' :: a :: b :: rest => (unhexByte a).isSome && (unhexByte b).isSome && pctEncoded rest
  | '%' :: _ => false
  | c :: rest => isUnreservedByte c.toNat && c.toNat < 128 && pctEncoded rest

structure Subscription where
  id         : Str
  subscriber : Str
  topic      : Str
  active     : Bool
  payload    : Str
  deriving DecidableEq, Repr

def subscriptionsPrefix : Str := "/.well-known/mercure/subscriptions/".toList

def subscriptionId (spacePlus : Bool) (sel subId : Str) : Str :=
  subscriptionsPrefix ++ queryEscape spacePlus sel ++ ['/'] ++ queryEscape spacePlus subId

/-- `getSubscriptions` (subscriber.go:93-117). `topic = ""` means "all". -/
def getSubscriptions (M : Str → Str → Bool) (spacePlus : Bool) (subId : Str) (sels allowed : List Str)
    (payload : Str) (topic : Str) (active : Bool) : List Subscription :=
  (sels.filter (fun t => !(topic != [] && (!(matchTopics M sels allowed [topic] false) || t != topic)))).map
    (fun t => { id := subscriptionId spacePlus t subId, subscriber := subId, topic := t,
                active := active, payload := payload })

end Mercure
