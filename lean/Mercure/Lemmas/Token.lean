import Mercure.Model.Token
import Mercure.Lemmas.Claims
import Mercure.Lemmas.Form
/-
  Lemmas about Mercure.Model.Token — the issuer's side of the compact serialisation (`b64encode`, `headerJSON`,
  `mint`) and the fact that `derive` reads back what `mint` wrote. (core Lean only: no Mathlib)
-/
namespace Mercure.TokenBytes
open Mercure Mercure.ClaimsJson

/-! ### the issuer's side -/

/-- the RawURLEncoding alphabet -/
def b64char (n : Nat) : Char :=
  if n < 26 then Char.ofNat (n + 65)
  else if n < 52 then Char.ofNat (n + 71)
  else if n < 62 then Char.ofNat (n - 4)
  else if n = 62 then '-' else '_'

/-- the 6-bit values of a byte string: 3 bytes → 4 values, a final 1 → 2, a final 2 → 3 -/
def sextetsOf : List UInt8 → List Nat
  | a :: b :: c :: rest =>
    a.toNat / 4 :: (a.toNat % 4 * 16 + b.toNat / 16) :: (b.toNat % 16 * 4 + c.toNat / 64) :: c.toNat % 64 ::
      sextetsOf rest
  | [a, b] => [a.toNat / 4, a.toNat % 4 * 16 + b.toNat / 16, b.toNat % 16 * 4]
  | [a] => [a.toNat / 4, a.toNat % 4 * 16]
  | [] => []

/-- `base64.RawURLEncoding.EncodeToString` -/
def b64encode : List UInt8 → Str
  | a :: b :: c :: rest =>
    b64char (a.toNat / 4) :: b64char (a.toNat % 4 * 16 + b.toNat / 16) ::
      b64char (b.toNat % 16 * 4 + c.toNat / 64) :: b64char (c.toNat % 64) :: b64encode rest
  | [a, b] => [b64char (a.toNat / 4), b64char (a.toNat % 4 * 16 + b.toNat / 16), b64char (b.toNat % 16 * 4)]
  | [a] => [b64char (a.toNat / 4), b64char (a.toNat % 4 * 16)]
  | [] => []

/-- the header golang-jwt writes: `{"alg":"…","typ":"JWT"}` -/
def headerJSON (alg : Str) : Str := "{\"alg\":".toList ++ quote alg ++ ",\"typ\":\"JWT\"}".toList

/-- the compact serialisation: three base64url segments joined with '.' -/
def mint (alg payload : Str) (sig : List UInt8) : Str :=
  b64encode (utf8Bytes (headerJSON alg)) ++ '.' :: b64encode (utf8Bytes payload) ++ '.' :: b64encode sig

/-! ### base64 -/

theorem b64char_facts : ∀ n : Fin 64,
    b64val (b64char n.val) = some n.val ∧ b64char n.val ≠ '\r' ∧ b64char n.val ≠ '\n' ∧ b64char n.val ≠ '.' := by
  decide +kernel

theorem b64val_b64char (n : Nat) (h : n < 64) : b64val (b64char n) = some n := (b64char_facts ⟨n, h⟩).1

theorem sextets_b64char (n : Nat) (h : n < 64) (rest : Str) :
    sextets (b64char n :: rest) = (sextets rest).map (n :: ·) := by
  obtain ⟨h1, h2, h3, _⟩ := b64char_facts ⟨n, h⟩
  simp only at h1 h2 h3
  have e2 : (b64char n == '\r') = false := beq_eq_false_iff_ne.2 h2
  have e3 : (b64char n == '\n') = false := beq_eq_false_iff_ne.2 h3
  rw [sextets]
  simp only [e2, e3, Bool.or_self, Bool.false_eq_true, if_false, h1]

theorem sextets_b64encode : ∀ bs : List UInt8, sextets (b64encode bs) = some (sextetsOf bs)
  | [] => by simp [b64encode, sextetsOf, sextets]
  | [a] => by
    have := a.toNat_lt
    simp only [b64encode, sextetsOf]
    rw [sextets_b64char _ (by omega), sextets_b64char _ (by omega)]
    simp [sextets]
  | [a, b] => by
    have := a.toNat_lt
    have := b.toNat_lt
    simp only [b64encode, sextetsOf]
    rw [sextets_b64char _ (by omega), sextets_b64char _ (by omega), sextets_b64char _ (by omega)]
    simp [sextets]
  | a :: b :: c :: rest => by
    have := a.toNat_lt
    have := b.toNat_lt
    have := c.toNat_lt
    simp only [b64encode, sextetsOf]
    rw [sextets_b64char _ (by omega), sextets_b64char _ (by omega), sextets_b64char _ (by omega),
      sextets_b64char _ (by omega), sextets_b64encode rest]
    simp

theorem ofNat_eq (a : UInt8) (n : Nat) (h : n = a.toNat) : UInt8.ofNat n = a := by
  subst h; exact UInt8.ofNat_toNat

theorem bytesOfSextets_sextetsOf : ∀ bs : List UInt8, bytesOfSextets (sextetsOf bs) = some bs
  | [] => by simp [sextetsOf, bytesOfSextets]
  | [a] => by
    have := a.toNat_lt
    simp only [sextetsOf, bytesOfSextets]
    rw [ofNat_eq a _ (by omega)]
  | [a, b] => by
    have := a.toNat_lt
    have := b.toNat_lt
    simp only [sextetsOf, bytesOfSextets]
    rw [ofNat_eq a _ (by omega), ofNat_eq b _ (by omega)]
  | a :: b :: c :: rest => by
    have := a.toNat_lt
    have := b.toNat_lt
    have := c.toNat_lt
    simp only [sextetsOf, bytesOfSextets]
    rw [bytesOfSextets_sextetsOf rest, ofNat_eq a _ (by omega), ofNat_eq b _ (by omega), ofNat_eq c _ (by omega)]
    simp

/-- base64url without padding decodes back to the bytes that were encoded -/
theorem b64decode_b64encode (bs : List UInt8) : b64decode (b64encode bs) = some bs := by
  unfold b64decode
  rw [sextets_b64encode, Option.bind_some, bytesOfSextets_sextetsOf]

theorem b64char_ne_dot (n : Nat) (h : n < 64) : b64char n ≠ '.' := (b64char_facts ⟨n, h⟩).2.2.2

theorem b64encode_no_dot : ∀ bs : List UInt8, '.' ∉ b64encode bs
  | [] => by simp [b64encode]
  | [a] => by
    have := a.toNat_lt
    simp only [b64encode, List.mem_cons, List.not_mem_nil, or_false, not_or]
    exact ⟨(b64char_ne_dot _ (by omega)).symm, (b64char_ne_dot _ (by omega)).symm⟩
  | [a, b] => by
    have := a.toNat_lt
    have := b.toNat_lt
    simp only [b64encode, List.mem_cons, List.not_mem_nil, or_false, not_or]
    exact ⟨(b64char_ne_dot _ (by omega)).symm, (b64char_ne_dot _ (by omega)).symm,
      (b64char_ne_dot _ (by omega)).symm⟩
  | a :: b :: c :: rest => by
    have := a.toNat_lt
    have := b.toNat_lt
    have := c.toNat_lt
    simp only [b64encode, List.mem_cons, not_or]
    exact ⟨(b64char_ne_dot _ (by omega)).symm, (b64char_ne_dot _ (by omega)).symm,
      (b64char_ne_dot _ (by omega)).symm, (b64char_ne_dot _ (by omega)).symm, b64encode_no_dot rest⟩

/-! ### strings.Split -/

theorem go_append (a : Str) (ha : '.' ∉ a) : ∀ (rest cur : Str),
    splitDots.go (a ++ rest) cur = splitDots.go rest (a.reverse ++ cur) := by
  induction a with
  | nil => intro rest cur; rfl
  | cons x xs ih =>
    intro rest cur
    simp only [List.mem_cons, not_or] at ha
    have hx : (x == '.') = false := by
      simp only [beq_eq_false_iff_ne, ne_eq]; exact fun h => ha.1 h.symm
    simp only [List.cons_append, splitDots.go, hx, Bool.false_eq_true, if_false]
    rw [ih ha.2]
    simp only [List.reverse_cons, List.append_assoc, List.cons_append, List.nil_append]

theorem go_dot (rest cur : Str) : splitDots.go ('.' :: rest) cur = cur.reverse :: splitDots.go rest [] := by
  simp [splitDots.go]

/-- three dot-free segments joined with '.' split back into themselves -/
theorem splitDots_join (a b c : Str) (ha : '.' ∉ a) (hb : '.' ∉ b) (hc : '.' ∉ c) :
    splitDots (a ++ '.' :: b ++ '.' :: c) = [a, b, c] := by
  unfold splitDots
  have h : a ++ '.' :: b ++ '.' :: c = a ++ ('.' :: (b ++ ('.' :: (c ++ [])))) := by simp
  rw [h, go_append a ha, go_dot, go_append b hb, go_dot, go_append c hc]
  simp [splitDots.go]

/-! ### the header -/

theorem qAlg : quote "alg".toList = "\"alg\"".toList := by decide +kernel
theorem qTyp : quote "typ".toList = "\"typ\"".toList := by decide +kernel
theorem qJWT : quote "JWT".toList = "\"JWT\"".toList := by decide +kernel

theorem headerJSON_eq (a : Str) :
    headerJSON a = render (.obj [("alg".toList, .str a), ("typ".toList, .str "JWT".toList)]) := by
  have l1 : "{\"alg\":".toList = '{' :: ("\"alg\"".toList ++ [':']) := by decide +kernel
  have l2 : ",\"typ\":\"JWT\"}".toList = ',' :: ("\"typ\"".toList ++ ':' :: ("\"JWT\"".toList ++ ['}'])) := by
    decide +kernel
  unfold headerJSON
  rw [render, renderMembers_two, render, render, qAlg, qTyp, qJWT, l1, l2]
  simp only [List.append_assoc, List.cons_append, List.nil_append]

theorem headerAlg_headerJSON (a : Str) : headerAlg (headerJSON a) = some a := by
  unfold headerAlg
  rw [headerJSON_eq, parseJSON_render _ (by simp [WellFormedNums, WellFormedMembers])]
  have hne : ("typ".toList == "alg".toList) = false := by decide +kernel
  simp only [List.reverse_cons, List.reverse_nil, List.nil_append, List.cons_append, List.find?, hne,
    beq_self_eq_true]

/-! ### the whole token -/

theorem derive_mint (alg : String) (halg : alg ∈ knownAlgs)
    (p s : Option (List Str)) (ns : Option (Option (List Str) × Option (List Str))) (e : Option Nat) (sig : List UInt8) :
    ∃ c, derive (mint alg.toList (encode p s ns e) sig) = .ok alg.toList c ∧
      ({ mercure := c.mercure.toClaim, namespaced := c.namespaced.map M.toClaim, exp := c.exp.map (·.1) } : Claims) =
        { mercure := { publish := p, subscribe := s, payload := [] },
          namespaced := ns.map fun (np, nsub) => { publish := np, subscribe := nsub, payload := [] },
          exp := e } := by
  have hc := claimsOf_encode p s ns e
  unfold claimsOf at hc
  cases hd : decode (encode p s ns e) with
  | none => rw [hd] at hc; simp at hc
  | some c =>
    rw [hd] at hc
    simp only [Option.map_some, Option.some.injEq] at hc
    refine ⟨c, ?_, hc⟩
    unfold derive mint
    rw [splitDots_join _ _ _ (b64encode_no_dot _) (b64encode_no_dot _) (b64encode_no_dot _)]
    simp only [b64decode_b64encode, Form.toStr_utf8Bytes, headerAlg_headerJSON, hd]
    have hk : knownAlgs.contains (String.ofList alg.toList) = true := by
      rw [String.ofList_toList]; simpa using halg
    rw [hk]; rfl

end Mercure.TokenBytes
