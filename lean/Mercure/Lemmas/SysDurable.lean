import Mercure.Model.Sys
/-
  Lemmas for C09 over the region-level model (`Mercure.Sys`), Bolt transport, repaired flags.
  Put helper lemmas in this namespace only.
-/
namespace Mercure.Sys.Durable
open Mercure.Sys

@[simp] theorem setThread_tr (σ : Sys) (i f) : (setThread σ i f).tr = σ.tr := rfl
@[simp] theorem setThread_subs (σ : Sys) (i f) : (setThread σ i f).subs = σ.subs := rfl
@[simp] theorem setThread_flags (σ : Sys) (i f) : (setThread σ i f).flags = σ.flags := rfl
@[simp] theorem setTr_tr (σ : Sys) (f) : (setTr σ f).tr = f σ.tr := rfl
@[simp] theorem setTr_subs (σ : Sys) (f) : (setTr σ f).subs = σ.subs := rfl
@[simp] theorem setTr_threads (σ : Sys) (f) : (setTr σ f).threads = σ.threads := rfl
@[simp] theorem setTr_flags (σ : Sys) (f) : (setTr σ f).flags = σ.flags := rfl
@[simp] theorem setSub_tr (σ : Sys) (s f) : (setSub σ s f).tr = σ.tr := rfl
@[simp] theorem setSub_threads (σ : Sys) (s f) : (setSub σ s f).threads = σ.threads := rfl
@[simp] theorem setSub_flags (σ : Sys) (s f) : (setSub σ s f).flags = σ.flags := rfl

/-- The part of the transport state the durability theorems talk about. -/
def core (t : Tr) : List (Nat × Upd) × Nat × Nat × List Upd × Kind := (t.db, t.seq, t.size, t.accepted, t.kind)

theorem admin_core (σ σ' : Sys) (i : Nat) (h : admin σ i = some σ') : core σ'.tr = core σ.tr := by
  unfold admin at h
  split at h
  · cases h
  · simp only at h
    split at h
    all_goals (try (split at h))
    all_goals (try (split at h))
    all_goals (try (split at h))
    all_goals (first | (cases h; rfl) | cases h)

theorem normalize_core (i : Nat) : ∀ (n : Nat) (σ : Sys), core (normalize i n σ).tr = core σ.tr
  | 0, σ => rfl
  | n+1, σ => by
    unfold normalize
    split
    · next σ' h => rw [normalize_core i n σ', admin_core σ σ' i h]
    · rfl

theorem normalize_db (i n : Nat) (σ : Sys) : (normalize i n σ).tr.db = σ.tr.db :=
  congrArg (·.1) (normalize_core i n σ)
theorem normalize_seq (i n : Nat) (σ : Sys) : (normalize i n σ).tr.seq = σ.tr.seq :=
  congrArg (·.2.1) (normalize_core i n σ)

theorem normalize_size (i n : Nat) (σ : Sys) : (normalize i n σ).tr.size = σ.tr.size :=
  congrArg (·.2.2.1) (normalize_core i n σ)

def dss (t : Tr) : List (Nat × Upd) × Nat × Nat := (t.db, t.seq, t.size)

theorem normalize_dss (i n : Nat) (σ : Sys) : dss (normalize i n σ).tr = dss σ.tr :=
  congrArg (fun c => (c.1, c.2.1, c.2.2.1)) (normalize_core i n σ)

theorem step_dss (σ : Sys) (i : Nat) :
    dss (step σ i).σ.tr = dss σ.tr ∨
    (∃ u, (step σ i).σ.tr.db = retain σ.tr.size (σ.tr.seq + 1) (σ.tr.db ++ [(σ.tr.seq + 1, u)]) ∧
          (step σ i).σ.tr.seq = σ.tr.seq + 1 ∧ (step σ i).σ.tr.size = σ.tr.size) := by
  unfold step
  split
  · exact .inl rfl
  split
  · exact .inl rfl
  split
  · exact .inl rfl
  simp only
  repeat' (first
    | exact .inl rfl
    | (refine .inl ?_; simp only [normalize_dss, setThread_tr, setTr_tr, setSub_tr]; done)
    | (refine .inl ?_; simp only [normalize_dss, setThread_tr, setTr_tr, setSub_tr]; rfl)
    | split)
  apply Or.inr
  apply Exists.intro
  refine ⟨?_, ?_, ?_⟩
  · simp only [normalize_db, setThread_tr, setTr_tr]
    rfl
  · simp only [normalize_seq, setThread_tr, setTr_tr]
  · simp only [normalize_size, setThread_tr, setTr_tr]

/-! ### the invariant -/

theorem setThread_get (σ : Sys) (i j : Nat) (f : Thread → Thread) :
    (setThread σ i f).threads[j]? = if j = i then σ.threads[j]?.map f else σ.threads[j]? := by
  unfold setThread
  simp only [List.getElem?_map, List.getElem?_zipIdx]
  cases h : σ.threads[j]? with
  | none => simp
  | some t =>
    by_cases hj : j = i
    · subst hj; simp
    · simp [hj]

/-- Updates carried by a frame; all of them have been accepted. -/
def fupds : Frame → List Upd
  | .sDispatch _ u _ _ => [u]
  | .sReady _ _ q => q
  | .tDispatch u pc _ => if pc ≤ 2 then [] else [u]
  | .tAdd _ _ _ scan _ => scan.map (·.2)
  | _ => []

def isTD : Frame → Bool
  | .tDispatch _ _ _ => true
  | _ => false

/-- The bottom frame of the stack, if any, is `tDispatch u`. -/
def Bot (u : Upd) : List Frame → Prop
  | [] => True
  | [f] => ∃ pc rs, f = .tDispatch u pc rs
  | _ :: g :: rest => Bot u (g :: rest)

theorem Bot_cons {u : Upd} {f : Frame} {rest : List Frame} (h : rest ≠ []) : Bot u (f :: rest) ↔ Bot u rest := by
  cases rest with
  | nil => exact absurd rfl h
  | cons g r => exact Iff.rfl

theorem Bot_pop {u : Upd} {f : Frame} {rest : List Frame} (h : Bot u (f :: rest)) : Bot u rest := by
  cases rest with
  | nil => trivial
  | cons g r => exact h

theorem Bot_append {u : Upd} {rest : List Frame} (hne : rest ≠ []) (h : Bot u rest) : ∀ pre, Bot u (pre ++ rest)
  | [] => h
  | f :: pre => by
    have : pre ++ rest ≠ [] := by simp [hne]
    exact (Bot_cons (f := f) this).mpr (Bot_append hne h pre)

theorem Bot_ne {u : Upd} {f : Frame} {rest : List Frame} (h : Bot u (f :: rest)) (hf : isTD f = false) : rest ≠ [] := by
  intro hr; subst hr
  obtain ⟨pc, rs, e⟩ := h
  subst e; cases hf

theorem Bot_swap {u u' : Upd} {pc pc' : Nat} {rs rs' : List Nat} {rest : List Frame}
    (h : Bot u (.tDispatch u' pc rs :: rest)) : Bot u (.tDispatch u' pc' rs' :: rest) := by
  cases rest with
  | nil =>
    obtain ⟨a, b, e⟩ := h
    cases e; exact ⟨_, _, rfl⟩
  | cons g r => exact h

theorem Bot_push {u : Upd} {f g : Frame} {rest : List Frame} (h : Bot u (f :: rest)) : Bot u (g :: f :: rest) := h

theorem Bot_single {u u' : Upd} {pc : Nat} {rs : List Nat} (h : Bot u [.tDispatch u' pc rs]) : u' = u := by
  obtain ⟨a, b, e⟩ := h
  cases e; rfl

def SubOK (acc : List Upd) (b : Sub) : Prop := ∀ u, (u ∈ b.enq ∨ u ∈ b.liveQueue) → u ∈ acc

def DbInv (t : Tr) : Prop :=
  t.seq = t.accepted.length ∧
  ∃ k, (t.size = 0 → k = 0) ∧ (t.size ≠ 0 → k ≤ t.accepted.length - t.size) ∧
    t.db.map (·.2) = t.accepted.drop k ∧ t.db.map (·.1) = List.range' (k + 1) (t.accepted.length - k)

structure Inv (σ : Sys) : Prop where
  flags : σ.flags = Flags.repaired
  kind : σ.tr.kind = .bolt
  db : DbInv σ.tr
  subs : ∀ b ∈ σ.subs, SubOK σ.tr.accepted b
  frames : ∀ (i : Nat) (th : Thread), σ.threads[i]? = some th → ∀ f ∈ th.stack, ∀ u ∈ fupds f, u ∈ σ.tr.accepted
  disp : ∀ (i : Nat) (th : Thread), σ.threads[i]? = some th → ∀ u, th.op = .dispatch u →
    Bot u th.stack ∧ (th.ret = some .ok → u ∈ σ.tr.accepted)

theorem DbInv_of_core {t t' : Tr} (h : core t' = core t) (hd : DbInv t) : DbInv t' := by
  unfold core at h
  simp only [Prod.mk.injEq] at h
  obtain ⟨h1, h2, h3, h4, -⟩ := h
  unfold DbInv
  rw [h1, h2, h3, h4]
  exact hd

theorem db_sub_acc {t : Tr} (hd : DbInv t) : ∀ e ∈ t.db, e.2 ∈ t.accepted := by
  intro e he
  obtain ⟨-, k, -, -, h2, -⟩ := hd
  have : e.2 ∈ t.db.map (·.2) := List.mem_map.mpr ⟨e, he, rfl⟩
  rw [h2] at this
  exact List.mem_of_mem_drop this

/-- The general form of a `cont`: thread `i` replaces its top frame by `pre`. -/
theorem contA {σ X : Sys} {i : Nat} {th : Thread} {fr : Frame} {rest pre : List Frame} {r : Option Ret} {last : Option Bool}
    (hI : Inv σ) (hth : σ.threads[i]? = some th) (hst : th.stack = fr :: rest)
    (hXt : X.threads = σ.threads) (hXf : X.flags = σ.flags) (hXk : X.tr.kind = σ.tr.kind)
    (hXd : DbInv X.tr) (hXa : ∀ u ∈ σ.tr.accepted, u ∈ X.tr.accepted)
    (hXs : ∀ b ∈ X.subs, SubOK X.tr.accepted b)
    (hpre : ∀ f ∈ pre, ∀ u ∈ fupds f, u ∈ X.tr.accepted)
    (hd : ∀ u, th.op = .dispatch u → Bot u (pre ++ rest) ∧
      (pre ++ rest = [] → (r.orElse fun _ => some .ok) = some .ok → u ∈ X.tr.accepted)) :
    Inv (setThread X i fun t => retOf (pre ++ rest) t r last) := by
  refine ⟨hXf.trans hI.flags, hXk.trans hI.kind, hXd, hXs, ?_, ?_⟩
  · intro j th' hj f hf u hu
    rw [setThread_get, hXt] at hj
    split at hj
    · next hji =>
      subst hji
      rw [hth] at hj
      simp only [Option.map_some, Option.some.injEq] at hj
      subst hj
      simp only [setThread_tr]
      have hf' : f ∈ pre ++ rest := hf
      rcases List.mem_append.mp hf' with h | h
      · exact hpre f h u hu
      · exact hXa u (hI.frames j th hth f (by rw [hst]; exact List.mem_cons_of_mem _ h) u hu)
    · exact hXa u (hI.frames j th' hj f hf u hu)
  · intro j th' hj u hop
    rw [setThread_get, hXt] at hj
    split at hj
    · next hji =>
      subst hji
      rw [hth] at hj
      simp only [Option.map_some, Option.some.injEq] at hj
      subst hj
      obtain ⟨h1, h2⟩ := hd u hop
      refine ⟨h1, ?_⟩
      intro hr
      simp only [setThread_tr]
      by_cases he : pre ++ rest = []
      · apply h2 he
        simpa [retOf, he] using hr
      · have : (retOf (pre ++ rest) th r last).ret = th.ret := by simp [retOf, he]
        rw [this] at hr
        exact hXa u ((hI.disp j th hth u hop).2 hr)
    · obtain ⟨h1, h2⟩ := hI.disp j th' hj u hop
      exact ⟨h1, fun a => hXa u (h2 a)⟩

/-- `cont` when the transport's durable part is untouched. -/
theorem contB {σ X : Sys} {i : Nat} {th : Thread} {fr : Frame} {rest : List Frame} (pre : List Frame) {r : Option Ret} {last : Option Bool}
    (hI : Inv σ) (hth : σ.threads[i]? = some th) (hst : th.stack = fr :: rest)
    (hXt : X.threads = σ.threads) (hXf : X.flags = σ.flags) (hXc : core X.tr = core σ.tr)
    (hXs : ∀ b ∈ X.subs, SubOK σ.tr.accepted b)
    (hpre : ∀ f ∈ pre, ∀ u ∈ fupds f, u ∈ σ.tr.accepted)
    (hd : ∀ u, th.op = .dispatch u → Bot u (pre ++ rest) ∧
      (pre ++ rest = [] → (r.orElse fun _ => some .ok) = some .ok → u ∈ σ.tr.accepted)) :
    Inv (setThread X i fun t => retOf (pre ++ rest) t r last) := by
  have hacc : X.tr.accepted = σ.tr.accepted := congrArg (·.2.2.2.1) hXc
  have hk : X.tr.kind = σ.tr.kind := congrArg (·.2.2.2.2) hXc
  apply contA hI hth hst hXt hXf hk (DbInv_of_core hXc hI.db)
  · rw [hacc]; exact fun _ h => h
  · rw [hacc]; exact hXs
  · rw [hacc]; exact hpre
  · rw [hacc]; exact hd

/-- `cont` for a frame that is never the bottom frame of a dispatch thread. -/
theorem hd_nb {σ : Sys} {i : Nat} {th : Thread} {fr : Frame} {rest : List Frame}
    (hI : Inv σ) (hth : σ.threads[i]? = some th) (hst : th.stack = fr :: rest) (hfr : isTD fr = false)
    (pre : List Frame) (r : Option Ret) (acc : List Upd) :
    ∀ u, th.op = .dispatch u → Bot u (pre ++ rest) ∧
      (pre ++ rest = [] → (r.orElse fun _ => some .ok) = some .ok → u ∈ acc) := by
  intro u hop
  have hb := (hI.disp i th hth u hop).1
  rw [hst] at hb
  have hne := Bot_ne hb hfr
  refine ⟨Bot_append hne (Bot_pop hb) pre, ?_⟩
  intro he
  simp [hne] at he

theorem contN {σ X : Sys} {i : Nat} {th : Thread} {fr : Frame} {rest : List Frame} (pre : List Frame) {r : Option Ret} {last : Option Bool}
    (hI : Inv σ) (hth : σ.threads[i]? = some th) (hst : th.stack = fr :: rest) (hfr : isTD fr = false)
    (hXt : X.threads = σ.threads) (hXf : X.flags = σ.flags) (hXc : core X.tr = core σ.tr)
    (hXs : ∀ b ∈ X.subs, SubOK σ.tr.accepted b)
    (hpre : ∀ f ∈ pre, ∀ u ∈ fupds f, u ∈ σ.tr.accepted) :
    Inv (setThread X i fun t => retOf (pre ++ rest) t r last) :=
  contB pre hI hth hst hXt hXf hXc hXs hpre (hd_nb hI hth hst hfr pre r _)


/-! ### subscribers, history scans -/

theorem getSub_ok {σ : Sys} {acc : List Upd} (h : ∀ b ∈ σ.subs, SubOK acc b) (s : Nat) : SubOK acc (getSub σ s) := by
  unfold getSub
  rw [List.getD_eq_getElem?_getD]
  cases hs : σ.subs[s]? with
  | none => intro u hu; simp at hu
  | some b => exact h b (List.mem_of_getElem? hs)

theorem setSub_ok {σ : Sys} {s : Nat} {f : Sub → Sub} {acc : List Upd} (h : ∀ b ∈ σ.subs, SubOK acc b)
    (hf : ∀ b, SubOK acc b → SubOK acc (f b)) : ∀ b ∈ (setSub σ s f).subs, SubOK acc b := by
  intro b hb
  unfold setSub at hb
  simp only [List.mem_map] at hb
  obtain ⟨p, hp, e⟩ := hb
  have hp1 : p.1 ∈ σ.subs := by
    have := List.mem_zipIdx hp
    have h2 := this.2.2
    simp only [Nat.sub_zero] at h2
    rw [h2]; exact List.getElem_mem _
  subst e
  split
  · exact hf _ (h _ hp1)
  · exact h _ hp1

theorem scanLoop_upds (fl : Flags) (sb : Sub) (s toSeq : Nat) : ∀ (fuel : Nat) (todo : List (Nat × Upd)) (resp : Resp),
    ∀ f ∈ scanLoop fl sb s toSeq fuel todo resp, ∀ u ∈ fupds f, ∃ e ∈ todo, e.2 = u
  | 0, [], resp => by simp [scanLoop, fupds]
  | 0, _ :: _, resp => by simp [scanLoop, fupds]
  | fuel + 1, [], resp => by simp [scanLoop, fupds]
  | fuel + 1, e :: more, resp => by
    unfold scanLoop
    split
    · simp [fupds]
    split
    · intro f hf u hu
      simp only [List.mem_cons, List.not_mem_nil, or_false] at hf
      rcases hf with rfl | rfl
      · simp only [fupds, List.mem_cons, List.not_mem_nil, or_false] at hu
        exact ⟨e, List.mem_cons_self, hu.symm⟩
      · simp only [fupds, List.mem_map] at hu
        obtain ⟨e', he', rfl⟩ := hu
        exact ⟨e', he', rfl⟩
    split
    · simp [fupds]
    intro f hf u hu
    obtain ⟨e', he', h⟩ := scanLoop_upds fl sb s toSeq fuel more resp f hf u hu
    exact ⟨e', List.mem_cons_of_mem _ he', h⟩

theorem scanFrom_go_sub (n : Nat) : ∀ (db : List (Nat × Upd)) (last : Resp), ∀ e ∈ (scanFrom.go n db last).2, e ∈ db
  | [], last => by simp [scanFrom.go]
  | e :: rest, last => by
    unfold scanFrom.go
    split
    · intro e' he'; exact List.mem_cons_of_mem _ he'
    · intro e' he'; exact List.mem_cons_of_mem _ (scanFrom_go_sub n rest _ e' he')

theorem scanFrom_sub (db : List (Nat × Upd)) (req : Req) : ∀ e ∈ (scanFrom db req).2, e ∈ db := by
  cases req with
  | none => simp [scanFrom]
  | earliest => simp [scanFrom]
  | id n => exact scanFrom_go_sub n db _


/-! ### administrative transitions -/

theorem pre0 {acc : List Upd} : ∀ f ∈ ([] : List Frame), ∀ u ∈ fupds f, u ∈ acc := by
  intro f hf; cases hf

theorem pre1 {acc : List Upd} {f : Frame} (h : ∀ u ∈ fupds f, u ∈ acc) : ∀ g ∈ [f], ∀ u ∈ fupds g, u ∈ acc := by
  intro g hg
  simp only [List.mem_cons, List.not_mem_nil, or_false] at hg
  subst hg; exact h

theorem pre2 {acc : List Upd} {f f' : Frame} (h : ∀ u ∈ fupds f, u ∈ acc) (h' : ∀ u ∈ fupds f', u ∈ acc) :
    ∀ g ∈ [f, f'], ∀ u ∈ fupds g, u ∈ acc := by
  intro g hg
  simp only [List.mem_cons, List.not_mem_nil, or_false] at hg
  rcases hg with rfl | rfl
  · exact h
  · exact h'

theorem noupd {acc : List Upd} {f : Frame} (h : fupds f = []) : ∀ u ∈ fupds f, u ∈ acc := by
  rw [h]; intro u hu; cases hu

theorem admin_inv {σ σ' : Sys} {i : Nat} (hI : Inv σ) (h : admin σ i = some σ') : Inv σ' := by
  unfold admin at h
  split at h
  · cases h
  next th hth =>
  simp only at h
  have hk := hI.kind
  split at h
  · -- tDispatch 9
    next u recips rest hst =>
    have hfr : ∀ x ∈ fupds (.tDispatch u 9 recips), x ∈ σ.tr.accepted :=
      hI.frames i th hth _ (by rw [hst]; exact List.mem_cons_self)
    have hu : u ∈ σ.tr.accepted := hfr u (by simp [fupds])
    split at h
    · next s rs' =>
      cases h
      refine contB [.sDispatch s u false 0, .tDispatch u 9 rs'] hI hth hst rfl rfl rfl hI.subs
        (pre2 (by simpa [fupds] using hu) (by simpa [fupds] using hu)) ?_
      intro u' hop
      have hb := (hI.disp i th hth u' hop).1
      rw [hst] at hb
      exact ⟨Bot_push (Bot_swap hb), fun he => by cases he⟩
    · split at h
      · rw [hk] at *; contradiction
      · rw [hk] at *; contradiction
      · cases h
        refine contB [] hI hth hst rfl rfl rfl hI.subs pre0 ?_
        intro u' hop
        have hb := (hI.disp i th hth u' hop).1
        rw [hst] at hb
        refine ⟨Bot_pop hb, ?_⟩
        intro he _
        have he' : rest = [] := he
        subst he'
        rw [← Bot_single hb]; exact hu
  · -- tAdd 8
    next s toSeq scan resp rest hst =>
    have hfr : ∀ x ∈ fupds (.tAdd s 8 toSeq scan resp), x ∈ σ.tr.accepted :=
      hI.frames i th hth _ (by rw [hst]; exact List.mem_cons_self)
    split at h
    · cases h
      exact contN [.tAdd s 4 toSeq [] resp] hI hth hst rfl rfl rfl rfl hI.subs (pre1 (noupd rfl))
    · next e more =>
      split at h
      · cases h
        exact contN [.tAdd s 4 toSeq [] resp] hI hth hst rfl rfl rfl rfl hI.subs (pre1 (noupd rfl))
      split at h
      · cases h
        exact contN [.tAdd s 4 toSeq [] resp] hI hth hst rfl rfl rfl rfl hI.subs (pre1 (noupd rfl))
      · cases h
        refine contN (scanLoop _ _ s toSeq _ more resp) hI hth hst rfl rfl rfl rfl hI.subs ?_
        intro f hf x hx
        obtain ⟨e', he', rfl⟩ := scanLoop_upds _ _ _ _ _ _ _ f hf x hx
        apply hfr
        simp only [fupds, List.mem_map]
        exact ⟨e', List.mem_cons_of_mem _ he', rfl⟩
  · -- tAdd 7
    next hst =>
    split at h
    · rw [hk] at *; contradiction
    · cases h
      exact contN [] hI hth hst rfl rfl rfl rfl hI.subs pre0
  · -- tClose 9
    next todo rest hst =>
    split at h
    · next s more =>
      cases h
      exact contN [.sDisconnect s 0, .tClose 9 more] hI hth hst rfl rfl rfl rfl hI.subs (pre2 (noupd rfl) (noupd rfl))
    · split at h
      · cases h
        exact contN [.tClose 4 []] hI hth hst rfl rfl rfl rfl hI.subs (pre1 (noupd rfl))
      · rw [hk] at *; contradiction
  · cases h

theorem normalize_inv (i : Nat) : ∀ (n : Nat) {σ : Sys}, Inv σ → Inv (normalize i n σ)
  | 0, _, h => h
  | n + 1, σ, h => by
    unfold normalize
    split
    · next σ' ha => exact normalize_inv i n (admin_inv h ha)
    · exact h


/-! ### steps -/

@[simp] theorem rep1 : Flags.repaired.closeOnOverflow = true := rfl
@[simp] theorem rep2 : Flags.repaired.readyGuard = true := rfl
@[simp] theorem rep3 : Flags.repaired.disconnectRecheck = true := rfl
@[simp] theorem rep4 : Flags.repaired.localMatchLocked = true := rfl
@[simp] theorem rep5 : Flags.repaired.lastSeqOnOpen = true := rfl
@[simp] theorem rep6 : Flags.repaired.cutBeforeDispatch = true := rfl

theorem Inv_panic {σ : Sys} (h : Inv σ) (p : Option String) : Inv { σ with panic := p } :=
  ⟨h.flags, h.kind, h.db, h.subs, h.frames, h.disp⟩

theorem Inv.f1 {σ : Sys} (h : Inv σ) : σ.flags.closeOnOverflow = true := by rw [h.flags]; rfl
theorem Inv.f2 {σ : Sys} (h : Inv σ) : σ.flags.readyGuard = true := by rw [h.flags]; rfl
theorem Inv.f3 {σ : Sys} (h : Inv σ) : σ.flags.disconnectRecheck = true := by rw [h.flags]; rfl
theorem Inv.f4 {σ : Sys} (h : Inv σ) : σ.flags.localMatchLocked = true := by rw [h.flags]; rfl
theorem Inv.f6 {σ : Sys} (h : Inv σ) : σ.flags.cutBeforeDispatch = true := by rw [h.flags]; rfl

theorem subOK_snoc {acc : List Upd} {b b' : Sub} {u : Upd} (hu : u ∈ acc) (h : SubOK acc b)
    (he : b'.enq = b.enq ∨ b'.enq = b.enq ++ [u]) (hl : b'.liveQueue = b.liveQueue ∨ b'.liveQueue = b.liveQueue ++ [u]) :
    SubOK acc b' := by
  intro x hx
  rcases hx with hx | hx
  · rcases he with he | he
    · rw [he] at hx; exact h x (.inl hx)
    · rw [he] at hx
      rcases List.mem_append.mp hx with hx | hx
      · exact h x (.inl hx)
      · simp only [List.mem_singleton] at hx; rw [hx]; exact hu
  · rcases hl with hl | hl
    · rw [hl] at hx; exact h x (.inr hx)
    · rw [hl] at hx
      rcases List.mem_append.mp hx with hx | hx
      · exact h x (.inr hx)
      · simp only [List.mem_singleton] at hx; rw [hx]; exact hu

theorem setSubTr_ok {σ : Sys} {s : Nat} {f : Sub → Sub} {g : Tr → Tr} {acc : List Upd} (h : ∀ b ∈ σ.subs, SubOK acc b)
    (hf : ∀ b, SubOK acc b → SubOK acc (f b)) : ∀ b ∈ (setTr (setSub σ s f) g).subs, SubOK acc b :=
  setSub_ok h hf

set_option hygiene false in
macro "leafSubs" : tactic => `(tactic| first
  | exact hI.subs
  | exact setSub_ok hI.subs fun _ h => h
  | exact setSubTr_ok hI.subs fun _ h => h
  | exact setSub_ok hI.subs fun _ h => subOK_snoc hu h (.inr rfl) (.inl rfl)
  | exact setSub_ok hI.subs fun _ h => subOK_snoc hu h (.inl rfl) (.inr rfl))

set_option hygiene false in
macro "leafPre" : tactic => `(tactic| first
  | exact pre0
  | exact pre1 hfr
  | exact pre1 (noupd rfl)
  | exact pre2 (noupd rfl) (noupd rfl))

set_option hygiene false in
/-- closes the routine leaves of the case analysis of `step` (frames other than `tDispatch`) -/
macro "leafN" : tactic => `(tactic| first
  | exact hI
  | exact Inv_panic hI _
  | (apply normalize_inv; first
      | (refine contN [] hI hth hst rfl rfl rfl rfl ?_ ?_; leafSubs; leafPre)
      | (refine contN [_] hI hth hst rfl rfl rfl rfl ?_ ?_; leafSubs; leafPre)
      | (refine contN [_, _] hI hth hst rfl rfl rfl rfl ?_ ?_; leafSubs; leafPre)))

theorem step_sDispatch {σ : Sys} {i : Nat} {th : Thread} {s : Nat} {u : Upd} {hist : Bool} {pc : Nat} {rest : List Frame}
    (hI : Inv σ) (hp : σ.panic = none) (hth : σ.threads[i]? = some th) (hst : th.stack = .sDispatch s u hist pc :: rest) :
    Inv (step σ i).σ := by
  have hfr : ∀ x ∈ fupds (.sDispatch s u hist pc), x ∈ σ.tr.accepted :=
    hI.frames i th hth _ (by rw [hst]; exact List.mem_cons_self)
  have hu : u ∈ σ.tr.accepted := hfr u (by simp [fupds])
  unfold step
  simp only [hp, hth, hst, Option.isSome_none, Bool.false_eq_true, if_false, hI.f1, if_true]
  repeat' (first | leafN | split)

theorem step_sDisconnect {σ : Sys} {i : Nat} {th : Thread} {s : Nat} {pc : Nat} {rest : List Frame}
    (hI : Inv σ) (hp : σ.panic = none) (hth : σ.threads[i]? = some th) (hst : th.stack = .sDisconnect s pc :: rest) :
    Inv (step σ i).σ := by
  unfold step
  simp only [hp, hth, hst, Option.isSome_none, Bool.false_eq_true, if_false, hI.f3, if_true]
  repeat' (first | leafN | split)

theorem step_tRemove {σ : Sys} {i : Nat} {th : Thread} {s : Nat} {pc : Nat} {rest : List Frame}
    (hI : Inv σ) (hp : σ.panic = none) (hth : σ.threads[i]? = some th) (hst : th.stack = .tRemove s pc :: rest) :
    Inv (step σ i).σ := by
  unfold step
  simp only [hp, hth, hst, Option.isSome_none, Bool.false_eq_true, if_false]
  repeat' (first | leafN | split)

theorem step_tList {σ : Sys} {i : Nat} {th : Thread} {rest : List Frame}
    (hI : Inv σ) (hp : σ.panic = none) (hth : σ.threads[i]? = some th) (hst : th.stack = .tList :: rest) :
    Inv (step σ i).σ := by
  unfold step
  simp only [hp, hth, hst, Option.isSome_none, Bool.false_eq_true, if_false]
  repeat' (first | leafN | split)

theorem step_uRecv {σ : Sys} {i : Nat} {th : Thread} {s : Nat} {rest : List Frame}
    (hI : Inv σ) (hp : σ.panic = none) (hth : σ.threads[i]? = some th) (hst : th.stack = .uRecv s :: rest) :
    Inv (step σ i).σ := by
  unfold step
  simp only [hp, hth, hst, Option.isSome_none, Bool.false_eq_true, if_false]
  repeat' (first | leafN | split)

theorem step_tClose {σ : Sys} {i : Nat} {th : Thread} {pc : Nat} {todo : List Nat} {rest : List Frame}
    (hI : Inv σ) (hp : σ.panic = none) (hth : σ.threads[i]? = some th) (hst : th.stack = .tClose pc todo :: rest) :
    Inv (step σ i).σ := by
  unfold step
  simp only [hp, hth, hst, Option.isSome_none, Bool.false_eq_true, if_false, hI.kind]
  repeat' (first | leafN | split)


theorem step_sReady {σ : Sys} {i : Nat} {th : Thread} {s : Nat} {pc : Nat} {q : List Upd} {rest : List Frame}
    (hI : Inv σ) (hp : σ.panic = none) (hth : σ.threads[i]? = some th) (hst : th.stack = .sReady s pc q :: rest) :
    Inv (step σ i).σ := by
  have hfr : ∀ x ∈ fupds (.sReady s pc q), x ∈ σ.tr.accepted :=
    hI.frames i th hth _ (by rw [hst]; exact List.mem_cons_self)
  unfold step
  simp only [hp, hth, hst, Option.isSome_none, Bool.false_eq_true, if_false, hI.f1, hI.f2, if_true]
  repeat' (first | leafN | split)
  · apply normalize_inv
    exact contN [_] hI hth hst rfl rfl rfl rfl (setSub_ok hI.subs fun _ h => h)
      (pre1 (fun x hx => getSub_ok hI.subs s x (.inr hx)))
  · have hu := hfr _ List.mem_cons_self
    apply normalize_inv
    exact contN [_] hI hth hst rfl rfl rfl rfl
      (setSub_ok hI.subs fun _ h => subOK_snoc hu h (.inr rfl) (.inl rfl)) (pre1 (noupd rfl))
  · have hu := hfr _ List.mem_cons_self
    apply normalize_inv
    exact contN [_] hI hth hst rfl rfl rfl rfl
      (setSub_ok hI.subs fun _ h => subOK_snoc hu h (.inr rfl) (.inl rfl))
      (pre1 (fun x hx => hfr x (List.mem_cons_of_mem _ hx)))


theorem step_tAdd {σ : Sys} {i : Nat} {th : Thread} {s pc toSeq : Nat} {scan : List (Nat × Upd)} {resp : Resp} {rest : List Frame}
    (hI : Inv σ) (hp : σ.panic = none) (hth : σ.threads[i]? = some th) (hst : th.stack = .tAdd s pc toSeq scan resp :: rest) :
    Inv (step σ i).σ := by
  unfold step
  simp only [hp, hth, hst, Option.isSome_none, Bool.false_eq_true, if_false, hI.kind]
  repeat' (first | leafN | split)
  apply normalize_inv
  refine contN (scanLoop _ _ s toSeq _ _ _) hI hth hst rfl rfl rfl rfl hI.subs ?_
  intro f hf x hx
  obtain ⟨e', he', rfl⟩ := scanLoop_upds _ _ _ _ _ _ _ f hf x hx
  exact db_sub_acc hI.db e' (scanFrom_sub _ _ e' he')


/-- Filtering a list keyed by `range' s m` by `> c` drops a prefix. -/
theorem filter_gt_keys (c : Nat) (L : List (Nat × Upd)) (s m : Nat)
    (hk : L.map (·.1) = List.range' s m) :
    L.filter (fun e => e.1 > c) = L.drop (c + 1 - s) := by
  induction L generalizing s m with
  | nil => simp
  | cons e rest ih =>
    cases m with
    | zero => simp at hk
    | succ m =>
      rw [List.range'_succ] at hk
      simp only [List.map_cons, List.cons.injEq] at hk
      obtain ⟨h1, h2⟩ := hk
      have ih' := ih (s + 1) m h2
      by_cases hc : e.1 > c
      · have hz : c + 1 - s = 0 := by omega
        have hz' : c + 1 - (s + 1) = 0 := by omega
        rw [hz'] at ih'
        simp only [List.drop_zero] at ih'
        rw [List.filter_cons_of_pos (by simpa using hc), ih', hz]
        rfl
      · have hz : c + 1 - s = (c + 1 - (s + 1)) + 1 := by omega
        rw [List.filter_cons_of_neg (by simpa using hc), ih', hz]
        rfl

/-- The db.Update step keeps the store invariant. -/
theorem DbInv_update {t t' : Tr} {u : Upd} (h : DbInv t)
    (hseq : t'.seq = t.seq + 1) (hsize : t'.size = t.size) (hacc : t'.accepted = t.accepted ++ [u])
    (hdb : t'.db = retain t.size (t.seq + 1) (t.db ++ [(t.seq + 1, u)])) : DbInv t' := by
  obtain ⟨hs, k, hz, hle, hsnd, hfst⟩ := h
  have hk : k ≤ t.accepted.length := by
    by_cases h0 : t.size = 0
    · rw [hz h0]; omega
    · have := hle h0; omega
  have hlen : (t.accepted ++ [u]).length = t.accepted.length + 1 := by simp
  have hsnd' : (t.db ++ [(t.seq + 1, u)]).map (·.2) = (t.accepted ++ [u]).drop k := by
    rw [List.map_append, List.drop_append_of_le_length hk, hsnd]
    rfl
  have hfst' : (t.db ++ [(t.seq + 1, u)]).map (·.1) = List.range' (k + 1) ((t.accepted ++ [u]).length - k) := by
    have : (t.accepted ++ [u]).length - k = (t.accepted.length - k) + 1 := by omega
    rw [this, List.range'_concat, List.map_append, hfst, hs]
    simp; omega
  unfold DbInv
  rw [hseq, hsize, hacc, hdb]
  refine ⟨by rw [hs, hlen], ?_⟩
  by_cases hsz : (t.size == 0 || t.size ≥ t.seq + 1) = true
  · refine ⟨k, hz, ?_, ?_, ?_⟩
    · intro h0; have := hle h0; simp at hsz; omega
    · simpa [retain, hsz] using hsnd'
    · simpa [retain, hsz] using hfst'
  · have hsz' : 0 < t.size ∧ t.size < t.accepted.length + 1 := by
      simp at hsz; omega
    have hdb' : retain t.size (t.seq + 1) (t.db ++ [(t.seq + 1, u)])
        = (t.db ++ [(t.seq + 1, u)]).drop (t.seq + 1 - t.size + 1 - (k + 1)) := by
      simp only [retain, hsz]
      exact filter_gt_keys _ _ _ _ hfst'
    have := hle (by omega)
    refine ⟨k + (t.seq + 1 - t.size + 1 - (k + 1)), by omega, by omega, ?_, ?_⟩
    · rw [hdb', List.map_drop, hsnd', List.drop_drop]
    · rw [hdb', List.map_drop, hfst', List.drop_range']
      congr 1 <;> omega

theorem step_tDispatch {σ : Sys} {i : Nat} {th : Thread} {u : Upd} {pc : Nat} {rs : List Nat} {rest : List Frame}
    (hI : Inv σ) (hp : σ.panic = none) (hth : σ.threads[i]? = some th) (hst : th.stack = .tDispatch u pc rs :: rest) :
    Inv (step σ i).σ := by
  have hfr : ∀ x ∈ fupds (.tDispatch u pc rs), x ∈ σ.tr.accepted :=
    hI.frames i th hth _ (by rw [hst]; exact List.mem_cons_self)
  have hb : ∀ u', th.op = .dispatch u' → Bot u' (.tDispatch u pc rs :: rest) := by
    intro u' hop; have := (hI.disp i th hth u' hop).1; rw [hst] at this; exact this
  have hu : ¬ pc ≤ 2 → u ∈ σ.tr.accepted := fun h => hfr u (by simp [fupds, h])
  have hpop : ∀ (r : Ret) (acc : List Upd), r ≠ .ok → ∀ u', th.op = .dispatch u' → Bot u' ([] ++ rest) ∧
      ([] ++ rest = [] → ((some r).orElse fun _ => some .ok) = some .ok → u' ∈ acc) := by
    intro r acc hr u' hop
    refine ⟨Bot_pop (hb u' hop), fun _ h => ?_⟩
    simp only [Option.orElse_some, Option.some.injEq] at h
    exact absurd h hr
  have hswap : ∀ (pc' : Nat) (rs' : List Nat) (r : Option Ret) (acc : List Upd), ∀ u', th.op = .dispatch u' →
      Bot u' ([.tDispatch u pc' rs'] ++ rest) ∧
      ([.tDispatch u pc' rs'] ++ rest = [] → (r.orElse fun _ => some .ok) = some .ok → u' ∈ acc) := by
    intro pc' rs' r acc u' hop
    exact ⟨Bot_swap (hb u' hop), fun he => by cases he⟩
  unfold step
  simp only [hp, hth, hst, Option.isSome_none, Bool.false_eq_true, if_false, hI.kind, hI.f4]
  repeat' (first | exact hI | contradiction | split)
  · -- 0, closed
    apply normalize_inv
    exact contB [] hI hth hst rfl rfl rfl hI.subs pre0 (hpop _ _ (by decide))
  · apply normalize_inv
    exact contB [_] hI hth hst rfl rfl rfl hI.subs (pre1 (noupd rfl)) (hswap _ _ _ _)
  · apply normalize_inv
    exact contB [_] hI hth hst rfl rfl rfl hI.subs (pre1 (noupd rfl)) (hswap _ _ _ _)
  · apply normalize_inv
    exact contB [] hI hth hst rfl rfl rfl hI.subs pre0 (hpop _ _ (by decide))
  · -- db.Update
    apply normalize_inv
    have hsub : ∀ x ∈ σ.tr.accepted, x ∈ σ.tr.accepted ++ [u] := fun x hx => List.mem_append_left _ hx
    refine contA (pre := [_]) hI hth hst rfl rfl rfl (DbInv_update hI.db rfl rfl rfl rfl) hsub ?_ ?_ (hswap _ _ _ _)
    · intro b hb x hx
      exact hsub x (hI.subs b hb x hx)
    · apply pre1
      intro x hx
      simp only [fupds, Nat.reduceLeDiff, if_false, List.mem_singleton] at hx
      subst hx
      exact List.mem_append_right _ List.mem_cons_self
  · -- fan-out
    apply normalize_inv
    refine contB [_] hI hth hst rfl rfl rfl hI.subs (pre1 ?_) (hswap _ _ _ _)
    intro x hx
    simp only [fupds, Nat.reduceLeDiff, if_false, List.mem_singleton] at hx
    rw [hx]
    rename_i pc' _ _ _ _ h0 h1 h2
    exact hu (fun h => by
      have : pc' = 0 ∨ pc' = 1 ∨ pc' = 2 := by omega
      rcases this with h | h | h
      · exact h0 h
      · exact h1 h
      · exact h2 h)


theorem step_inv {σ : Sys} (hI : Inv σ) (i : Nat) : Inv (step σ i).σ := by
  cases hp : σ.panic with
  | some m => unfold step; simp only [hp, Option.isSome_some, if_true]; exact hI
  | none =>
  cases hth : σ.threads[i]? with
  | none => unfold step; simp only [hp, hth, Option.isSome_none, Bool.false_eq_true, if_false]; exact hI
  | some th =>
    cases hst : th.stack with
    | nil => unfold step; simp only [hp, hth, hst, Option.isSome_none, Bool.false_eq_true, if_false]; exact hI
    | cons fr rest =>
      cases fr with
      | sDispatch s u hist pc => exact step_sDispatch hI hp hth hst
      | sReady s pc q => exact step_sReady hI hp hth hst
      | sDisconnect s pc => exact step_sDisconnect hI hp hth hst
      | tDispatch u pc rs => exact step_tDispatch hI hp hth hst
      | tAdd s pc a b c => exact step_tAdd hI hp hth hst
      | tRemove s pc => exact step_tRemove hI hp hth hst
      | tClose pc todo => exact step_tClose hI hp hth hst
      | tList => exact step_tList hI hp hth hst
      | uRecv s => exact step_uRecv hI hp hth hst

theorem run_inv : ∀ (sched : List Nat) {σ : Sys}, Inv σ → Inv (run σ sched)
  | [], _, h => h
  | i :: is, _, h => run_inv is (step_inv h i)

theorem init_inv (size : Nat) (subs : List Sub) (ops : List Op) (wf : WellFormed subs ops) :
    Inv (Sys.init Flags.repaired .bolt size subs ops) := by
  have hthr : ∀ (j : Nat) (th : Thread), (Sys.init Flags.repaired .bolt size subs ops).threads[j]? = some th →
      ∃ o, th = { op := o, stack := o.start } := by
    intro j th h
    simp only [Sys.init, List.getElem?_map] at h
    cases ho : ops[j]? with
    | none => rw [ho] at h; cases h
    | some o =>
      rw [ho] at h
      exact ⟨o, by simpa using h.symm⟩
  refine ⟨rfl, rfl, ?_, ?_, ?_, ?_⟩
  · exact ⟨rfl, 0, fun _ => rfl, fun _ => Nat.zero_le _, rfl, rfl⟩
  · intro b hb
    obtain ⟨topics, req, cap, e⟩ := wf.fresh b hb
    subst e
    intro u hu
    simp [Sub.fresh] at hu
  · intro j th h f hf u hu
    obtain ⟨o, e⟩ := hthr j th h
    subst e
    cases o <;> simp [Op.start] at hf <;> subst hf <;> simp [fupds] at hu
  · intro j th h u hop
    obtain ⟨o, e⟩ := hthr j th h
    subst e
    simp only at hop
    subst hop
    exact ⟨⟨0, [], rfl⟩, fun hr => by cases hr⟩

theorem reach_inv (size : Nat) (subs : List Sub) (ops : List Op) (wf : WellFormed subs ops) (sched : List Nat) :
    Inv (reach Flags.repaired .bolt size subs ops sched) :=
  run_inv sched (init_inv size subs ops wf)

variable (size : Nat) (subs : List Sub) (ops : List Op)

/-- Whatever was handed to a subscriber had been persisted before (persist precedes fan-out). -/
theorem delivered_was_accepted (wf : WellFormed subs ops) (sched : List Nat) :
    ∀ b ∈ (reach Flags.repaired .bolt size subs ops sched).subs, ∀ u ∈ b.enq,
      u ∈ (reach Flags.repaired .bolt size subs ops sched).tr.accepted := by
  intro b hb u hu
  exact (reach_inv size subs ops wf sched).subs b hb u (.inl hu)

/-- A Dispatch that returned without error had persisted its update. -/
theorem acked_was_accepted (wf : WellFormed subs ops) (sched : List Nat) :
    ∀ th ∈ (reach Flags.repaired .bolt size subs ops sched).threads, ∀ u, th.op = .dispatch u → th.ret = some .ok →
      u ∈ (reach Flags.repaired .bolt size subs ops sched).tr.accepted := by
  intro th hth u hop hr
  obtain ⟨j, hj⟩ := List.mem_iff_getElem?.mp hth
  exact ((reach_inv size subs ops wf sched).disp j th hj u hop).2 hr

/-- The store is the accepted sequence minus a discarded prefix, each update at the position
    (sequence number) it was given when accepted — positions never change. -/
theorem store_is_suffix_at_fixed_positions (wf : WellFormed subs ops) (sched : List Nat) :
    let σ := reach Flags.repaired .bolt size subs ops sched
    σ.tr.seq = σ.tr.accepted.length ∧
    ∃ k, σ.tr.db.map (·.2) = σ.tr.accepted.drop k ∧ σ.tr.db.map (·.1) = List.range' (k + 1) (σ.tr.accepted.length - k) := by
  intro σ
  obtain ⟨hs, k, -, -, h2, h1⟩ := (reach_inv size subs ops wf sched).db
  exact ⟨hs, k, h2, h1⟩

theorem run_size : ∀ (sched : List Nat) (σ : Sys), (run σ sched).tr.size = σ.tr.size
  | [], _ => rfl
  | i :: is, σ => by
    have h1 : (run σ (i :: is)) = run (step σ i).σ is := rfl
    rw [h1, run_size is]
    rcases step_dss σ i with h | ⟨u, -, -, h⟩
    · exact congrArg (·.2.2) h
    · exact h

/-- Without retention nothing accepted is ever missing from the store. -/
theorem nothing_lost_without_retention (wf : WellFormed subs ops) (sched : List Nat) :
    (reach Flags.repaired .bolt 0 subs ops sched).tr.db.map (·.2) = (reach Flags.repaired .bolt 0 subs ops sched).tr.accepted := by
  obtain ⟨-, k, hz, -, h2, -⟩ := (reach_inv 0 subs ops wf sched).db
  have hsz : (reach Flags.repaired .bolt 0 subs ops sched).tr.size = 0 := run_size sched _
  rw [hz hsz] at h2
  simpa using h2

/-- With retention, everything among the last `size` accepted updates is in the store. -/
theorem recent_are_stored (hs : 0 < size) (wf : WellFormed subs ops) (sched : List Nat) :
    let σ := reach Flags.repaired .bolt size subs ops sched
    ∀ j, σ.tr.accepted.length - size ≤ j → ∀ u, σ.tr.accepted[j]? = some u → (j + 1, u) ∈ σ.tr.db := by
  intro σ j hj u hu
  have hI : Inv σ := reach_inv size subs ops wf sched
  obtain ⟨-, k, -, hle, h2, h1⟩ := hI.db
  have hsz : σ.tr.size = size := run_size sched _
  have hk : k ≤ σ.tr.accepted.length - size := by
    have := hle (by rw [hsz]; omega)
    rw [hsz] at this; exact this
  have hjl : j < σ.tr.accepted.length := (List.getElem?_eq_some_iff.mp hu).1
  have e1 : (σ.tr.db.map (·.1))[j - k]? = some (j + 1) := by
    rw [h1, List.getElem?_range']
    · congr 1; omega
    · omega
  have e2 : (σ.tr.db.map (·.2))[j - k]? = some u := by
    rw [h2, List.getElem?_drop, ← hu]
    congr 1; omega
  rw [List.getElem?_map] at e1 e2
  cases hd : σ.tr.db[j - k]? with
  | none => rw [hd] at e1; cases e1
  | some e =>
    rw [hd] at e1 e2
    simp only [Option.map_some, Option.some.injEq] at e1 e2
    have : e = (j + 1, u) := by rw [← e1, ← e2]
    rw [← this]
    exact List.mem_of_getElem? hd

/-- A crash at ANY instant followed by a restart: the committed store, its sequence counter and the
    accepted log are intact (a transaction is one atomic step), volatile state is gone, the hub
    reports the id of the last stored update and its in-memory sequence is reloaded. -/
theorem crash_restart_keeps_committed (σ : Sys) (subs' : List Sub) (ops' : List Op) :
    (restart σ subs' ops').tr.db = σ.tr.db ∧ (restart σ subs' ops').tr.seq = σ.tr.seq ∧
    (restart σ subs' ops').tr.accepted = σ.tr.accepted ∧
    (restart σ subs' ops').tr.lastId = (match σ.tr.db.getLast? with | some e => .id e.2.id | none => .earliest) ∧
    (σ.flags.lastSeqOnOpen = true → (restart σ subs' ops').tr.lastSeq = σ.tr.seq) ∧
    (restart σ subs' ops').tr.closedCh = false ∧ (restart σ subs' ops').tr.index = [] := by
  refine ⟨rfl, rfl, rfl, rfl, ?_, rfl, rfl⟩
  intro h
  simp [restart, h]

/-- Steps never rewrite or reorder what is stored: an entry either stays where it is or is
    discarded by retention. -/
theorem step_keeps_positions (σ : Sys) (i : Nat) (e : Nat × Upd) (he : e ∈ σ.tr.db) :
    e ∈ (step σ i).σ.tr.db ∨ (σ.tr.size ≠ 0 ∧ e.1 + σ.tr.size ≤ (step σ i).σ.tr.seq) := by
  rcases step_dss σ i with h | ⟨u, hdb, hseq, -⟩
  · have : (step σ i).σ.tr.db = σ.tr.db := congrArg (·.1) h
    rw [this]; exact .inl he
  · rw [hdb, hseq]
    unfold retain
    split
    · exact .inl (List.mem_append_left _ he)
    · next hc =>
      simp only [Bool.or_eq_true, beq_iff_eq, decide_eq_true_eq, not_or] at hc
      by_cases hk : e.1 > σ.tr.seq + 1 - σ.tr.size
      · left
        exact List.mem_filter.mpr ⟨List.mem_append_left _ he, by simpa using hk⟩
      · right
        exact ⟨hc.1, by omega⟩


end Mercure.Sys.Durable

#print axioms Mercure.Sys.Durable.delivered_was_accepted
#print axioms Mercure.Sys.Durable.acked_was_accepted
#print axioms Mercure.Sys.Durable.store_is_suffix_at_fixed_positions
#print axioms Mercure.Sys.Durable.nothing_lost_without_retention
#print axioms Mercure.Sys.Durable.recent_are_stored
#print axioms Mercure.Sys.Durable.crash_restart_keeps_committed
#print axioms Mercure.Sys.Durable.step_keeps_positions
