import Mercure.Lemmas.HubEvents
import Mercure.Generated.Facts
/-
  C17 — Subscription events announce each subscription's start and end exactly once.
  `st.events` is the ghost log of every subscription event a transport accepted: (connection, selector, active).
-/
namespace Mercure.C17
open Mercure

variable (M : Str → Str → Bool) (tokP tokS : Str → Option Claims)
variable (cfg : HubCfg) (kind : Kind) (size cap : Nat)

/-- None when tracking is disabled. -/
theorem tracking_off_none (ops : List HubOp) (h : cfg.subscriptions = false) :
    (HubSt.reach M tokP tokS cfg kind size cap ops).events = [] :=
  Mercure.reach_tracking_off M tokP tokS cfg kind size cap ops h

/-- Each accepted connection produced exactly one `active=true` event per selector, in selector order. -/
theorem start_exactly_once (ops : List HubOp) (hf : FreshLabels ops) (h : cfg.subscriptions = true) :
    ∀ c ∈ (HubSt.reach M tokP tokS cfg kind size cap ops).conns,
      evs (HubSt.reach M tokP tokS cfg kind size cap ops) c.label true = c.sels :=
  Mercure.reach_events_start M tokP tokS cfg kind size cap ops hf h

/-- …and exactly one `active=false` event per selector once it is gone (while the hub is open:
    on a closed hub there is nobody left to tell), none before. -/
theorem end_exactly_once (ops : List HubOp) (hf : FreshLabels ops) (h : cfg.subscriptions = true) :
    ∀ c ∈ (HubSt.reach M tokP tokS cfg kind size cap ops).conns,
      evs (HubSt.reach M tokP tokS cfg kind size cap ops) c.label false = (if c.shutdownOpen then c.sels else []) :=
  Mercure.reach_events_end M tokP tokS cfg kind size cap ops hf h

theorem end_only_when_gone (ops : List HubOp) :
    ∀ c ∈ (HubSt.reach M tokP tokS cfg kind size cap ops).conns, c.shutdownOpen = true → c.done = true :=
  Mercure.reach_shutdownOpen_done M tokP tokS cfg kind size cap ops

/-- Nothing is announced for a request that was refused: every event belongs to an accepted
    connection or to a registration that failed half-way. -/
theorem events_only_for_accepted (ops : List HubOp) :
    ∀ e ∈ (HubSt.reach M tokP tokS cfg kind size cap ops).events,
      (∃ c ∈ (HubSt.reach M tokP tokS cfg kind size cap ops).conns, c.label = e.1) ∨
      (∃ f ∈ (HubSt.reach M tokP tokS cfg kind size cap ops).failed, f.1 = e.1) :=
  Mercure.reach_events_labels M tokP tokS cfg kind size cap ops

/-- **Also when registration fails half-way**: a registration whose `AddSubscriber` failed while the
    hub was open was announced exactly once per selector with active=true and exactly once with
    active=false, in selector order (nothing at all when the hub was closed: nobody is left to tell). -/
theorem failed_registration_announced_once (ops : List HubOp) (hf : FreshLabels ops) (h : cfg.subscriptions = true) :
    ∀ f ∈ (HubSt.reach M tokP tokS cfg kind size cap ops).failed,
      evs (HubSt.reach M tokP tokS cfg kind size cap ops) f.1 true = (if f.2.2 then f.2.1 else []) ∧
      evs (HubSt.reach M tokP tokS cfg kind size cap ops) f.1 false = (if f.2.2 then f.2.1 else []) :=
  Mercure.reach_failed_events M tokP tokS cfg kind size cap ops hf h

/-- A failed registration leaves nothing behind: it is not a connection, it is not in the
    transport's subscriber list (so the subscription API does not list it), and the gauge did not move. -/
theorem failed_registration_leaves_nothing (ops : List HubOp) (hf : FreshLabels ops) :
    ∀ f ∈ (HubSt.reach M tokP tokS cfg kind size cap ops).failed,
      f.1 ∉ (HubSt.reach M tokP tokS cfg kind size cap ops).index ∧
      ∀ c ∈ (HubSt.reach M tokP tokS cfg kind size cap ops).conns, c.label ≠ f.1 :=
  Mercure.reach_failed_not_indexed M tokP tokS cfg kind size cap ops hf

/-- Shape: one private update whose only topic is the subscription id
    `/.well-known/mercure/subscriptions/` ++ esc selector ++ `/` ++ esc subscriber. -/
theorem event_shape (spacePlus : Bool) (sel sid payload : Str) (active : Bool) :
    let s : Subscription := { id := subscriptionId spacePlus sel sid, subscriber := sid, topic := sel, active := active, payload := payload }
    (subscriptionUpdate s).topics = [subscriptionsPrefix ++ queryEscape spacePlus sel ++ ['/'] ++ queryEscape spacePlus sid] ∧
    (subscriptionUpdate s).priv = true := by
  intro s; exact ⟨rfl, rfl⟩

/-- The escaped selector and subscriber decode back to the originals (so every id dereferences),
    for both ways of writing a space. -/
theorem esc_roundtrip (b : Bool) (bs : List Nat) (h : ∀ x ∈ bs, x < 256) :
    queryUnescapeBytes (queryEscapeBytes b bs) = some bs :=
  Mercure.queryUnescape_escape b bs h

/-- **The id is percent-encoded** (RFC 3986: unreserved characters and %XX only), for every
    selector — which is what makes it an expansion of the `{topic}` / `{subscriber}` variables of the
    subscriptions URL template. Holds for the escaping that writes a space as %20. -/
theorem id_is_percent_encoded (bs : List Nat) (h : ∀ x ∈ bs, x < 256) :
    pctEncoded (queryEscapeBytes false bs) = true :=
  Mercure.queryEscape_pctEncoded bs h

/-- The obligation against /repo (regenerated): ids are escaped with a function that writes a space as %20. -/
theorem repo_escapes_space_as_pct20 : Facts.idEscapeFn = "url.QueryEscape;+=%20" := by decide

/-- Witness for the old escaping (`url.QueryEscape`, finding F11): "a b" ↦ "a+b", not percent-encoded. -/
theorem C17_counterexample_space_plus : pctEncoded (queryEscapeBytes true [97, 32, 98]) = false := by decide +kernel

end Mercure.C17

#print axioms Mercure.C17.tracking_off_none
#print axioms Mercure.C17.start_exactly_once
#print axioms Mercure.C17.end_exactly_once
#print axioms Mercure.C17.end_only_when_gone
#print axioms Mercure.C17.events_only_for_accepted
#print axioms Mercure.C17.event_shape
#print axioms Mercure.C17.esc_roundtrip
#print axioms Mercure.C17.id_is_percent_encoded
#print axioms Mercure.C17.repo_escapes_space_as_pct20
#print axioms Mercure.C17.C17_counterexample_space_plus
#print axioms Mercure.C17.failed_registration_announced_once
#print axioms Mercure.C17.failed_registration_leaves_nothing
