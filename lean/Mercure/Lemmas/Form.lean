import Mercure.Model.Form
/-
  Lemmas about Mercure.Model.Form — what a client form-encodes is what the hub decodes.
  (core Lean only: no Mathlib)
-/
namespace Mercure.Form
open Mercure

/-! ### escape / unescape -/

theorem keep_ne (b : UInt8) (h : keep b = true) : b ≠ 37 ∧ b ≠ 43 := by
  constructor <;> (intro e; subst e; revert h; decide)

theorem unescape_cons_other (b : UInt8) (rest : Bytes) (h1 : b ≠ 37) (h2 : b ≠ 43) :
    unescape (b :: rest) = (unescape rest).map (b :: ·) := by
  rw [unescape.eq_def]
  split
  · simp_all
  · simp_all
  · simp_all
  · simp_all
  · rename_i h; cases h; rfl

theorem hexVal_hexUpper : ∀ n : Fin 16, hexVal (hexUpper n.val) = some n.val := by decide

theorem unescape_pct (a b : UInt8) (rest r : Bytes) (x y : Nat) (ha : hexVal a = some x) (hb : hexVal b = some y)
    (hr : unescape rest = some r) :
    unescape (37 :: a :: b :: rest) = some (UInt8.ofNat (x * 16 + y) :: r) := by
  rw [unescape, ha, hb, hr]

theorem unescape_plus (rest : Bytes) : unescape (43 :: rest) = (unescape rest).map (32 :: ·) := by
  rw [unescape];

/-- `QueryUnescape(QueryEscape(s)) = s` for every byte string -/
theorem unescape_escape (b : Bytes) : unescape (escape b) = some b := by
  induction b with
  | nil => rfl
  | cons b rest ih =>
    simp only [escape]
    by_cases hk : keep b = true
    · have := keep_ne b hk
      simp only [hk, if_true, List.singleton_append]
      rw [unescape_cons_other b _ this.1 this.2, ih]; rfl
    · simp only [hk, Bool.false_eq_true, if_false]
      by_cases h32 : b = 32
      · subst h32
        simp only [beq_self_eq_true, if_true, List.singleton_append]
        rw [unescape_plus, ih]; rfl
      · have : (b == 32) = false := by simp [h32]
        simp only [this, Bool.false_eq_true, if_false, List.cons_append, List.nil_append]
        have h1 := hexVal_hexUpper ⟨b.toNat / 16, by have := b.toNat_lt; omega⟩
        have h2 := hexVal_hexUpper ⟨b.toNat % 16, by omega⟩
        rw [unescape_pct _ _ _ _ _ _ h1 h2 ih]
        simp only
        rw [Nat.div_add_mod']
        simp

theorem hexUpper_ne (n : Fin 16) : hexUpper n.val ≠ 38 ∧ hexUpper n.val ≠ 59 ∧ hexUpper n.val ≠ 61 := by
  revert n; decide

theorem keep_ne_sep (b : UInt8) (h : keep b = true) : b ≠ 38 ∧ b ≠ 59 ∧ b ≠ 61 := by
  refine ⟨?_, ?_, ?_⟩ <;> (intro e; subst e; revert h; decide)

/-- an escaped string contains no separator: neither '&' (38) nor ';' (59) nor '=' (61) -/
theorem escape_no_separator (b : Bytes) : ∀ c ∈ escape b, c ≠ 38 ∧ c ≠ 59 ∧ c ≠ 61 := by
  induction b with
  | nil => intro c h; cases h
  | cons b rest ih =>
    intro c hc
    simp only [escape, List.mem_append] at hc
    rcases hc with hc | hc
    · by_cases hk : keep b = true
      · simp only [hk, if_true, List.mem_singleton] at hc
        subst hc; exact keep_ne_sep _ hk
      · simp only [hk, Bool.false_eq_true, if_false] at hc
        split at hc
        · simp only [List.mem_singleton] at hc; subst hc; decide
        · simp only [List.mem_cons, List.not_mem_nil, or_false] at hc
          rcases hc with hc | hc | hc
          · subst hc; decide
          · subst hc; exact hexUpper_ne ⟨b.toNat / 16, by have := b.toNat_lt; omega⟩
          · subst hc; exact hexUpper_ne ⟨b.toNat % 16, by omega⟩
    · exact ih c hc


/-! ### splitting and the fold of `parseQuery` -/

theorem splitOn_ne_nil (sep : UInt8) (a : Bytes) : splitOn sep a ≠ [] := by
  induction a with
  | nil => simp [splitOn]
  | cons c rest ih =>
    simp only [splitOn]
    split
    · simp
    · split <;> simp

theorem splitOn_not_mem (sep : UInt8) (a : Bytes) (h : sep ∉ a) : splitOn sep a = [a] := by
  induction a with
  | nil => rfl
  | cons c rest ih =>
    simp only [List.mem_cons, not_or] at h
    have hc : (c == sep) = false := by simp; exact fun e => h.1 e.symm
    simp [splitOn, hc, ih h.2]

theorem splitOn_append (sep : UInt8) (a b : Bytes) (h : sep ∉ a) :
    splitOn sep (a ++ sep :: b) = a :: splitOn sep b := by
  induction a with
  | nil => simp [splitOn]
  | cons c rest ih =>
    simp only [List.mem_cons, not_or] at h
    have hc : (c == sep) = false := by simp; exact fun e => h.1 e.symm
    simp [splitOn, hc, ih h.2]

theorem encodePair_no_amp (kv : Bytes × Bytes) : (38 : UInt8) ∉ encodePair kv := by
  intro h
  simp only [encodePair, List.mem_append, List.mem_singleton] at h
  rcases h with (h | h) | h
  · exact (escape_no_separator _ _ h).1 rfl
  · revert h; decide
  · exact (escape_no_separator _ _ h).1 rfl

theorem encodePair_no_semi (kv : Bytes × Bytes) : (59 : UInt8) ∉ encodePair kv := by
  intro h
  simp only [encodePair, List.mem_append, List.mem_singleton] at h
  rcases h with (h | h) | h
  · exact (escape_no_separator _ _ h).2.1 rfl
  · revert h; decide
  · exact (escape_no_separator _ _ h).2.1 rfl

theorem splitOn_encodePairs (kv : Bytes × Bytes) (kvs : List (Bytes × Bytes)) :
    splitOn 38 (encodePairs (kv :: kvs)) = (kv :: kvs).map encodePair := by
  induction kvs generalizing kv with
  | nil => simp [encodePairs, splitOn_not_mem _ _ (encodePair_no_amp kv)]
  | cons kv' rest ih =>
    rw [encodePairs]
    · rw [List.append_assoc, List.singleton_append, splitOn_append _ _ _ (encodePair_no_amp kv), ih]
      rfl
    · simp

theorem takeWhile_append_cons {α} (p : α → Bool) (a b : List α) (c : α) (ha : ∀ x ∈ a, p x = true) (hc : p c = false) :
    (a ++ c :: b).takeWhile p = a := by
  induction a with
  | nil => simp [hc]
  | cons x xs ih =>
    simp only [List.cons_append, List.takeWhile, ha x (List.mem_cons_self ..)]
    rw [ih (fun y hy => ha y (List.mem_cons_of_mem _ hy))]

theorem dropWhile_append_cons {α} (p : α → Bool) (a b : List α) (c : α) (ha : ∀ x ∈ a, p x = true) (hc : p c = false) :
    (a ++ c :: b).dropWhile p = c :: b := by
  induction a with
  | nil => simp [hc]
  | cons x xs ih =>
    simp only [List.cons_append, List.dropWhile, ha x (List.mem_cons_self ..)]
    rw [ih (fun y hy => ha y (List.mem_cons_of_mem _ hy))]

theorem cutEq_encodePair (k v : Bytes) : cutEq (encodePair (k, v)) = (escape k, escape v) := by
  have ha : ∀ x ∈ escape k, (x != 61) = true := by
    intro x hx; simpa using (escape_no_separator k x hx).2.2
  simp only [cutEq, encodePair, List.append_assoc, List.singleton_append]
  rw [takeWhile_append_cons _ _ _ _ ha (by decide), dropWhile_append_cons _ _ _ _ ha (by decide)]
  rfl

/-- the step function of `parseQuery` -/
def pqStep (acc : List (Bytes × Bytes) × Bool) (piece : Bytes) : List (Bytes × Bytes) × Bool :=
    if piece.contains 59 then (acc.1, true)
    else if piece.isEmpty then acc
    else
      let (k, v) := cutEq piece
      match unescape k with
      | none => (acc.1, true)
      | some k' =>
        match unescape v with
        | none => (acc.1, true)
        | some v' => (acc.1 ++ [(k', v')], acc.2)

theorem parseQuery_eq (q : Bytes) : parseQuery q = (splitOn 38 q).foldl pqStep ([], false) := rfl

theorem pqStep_encodePair (acc : List (Bytes × Bytes) × Bool) (kv : Bytes × Bytes) :
    pqStep acc (encodePair kv) = (acc.1 ++ [kv], acc.2) := by
  obtain ⟨k, v⟩ := kv
  have h1 : (encodePair (k, v)).contains 59 = false := by
    have := encodePair_no_semi (k, v)
    simpa using this
  have h2 : (encodePair (k, v)).isEmpty = false := by
    simp [encodePair]
  simp only [pqStep, h1, h2, cutEq_encodePair, unescape_escape, Bool.false_eq_true, if_false]

theorem foldl_pqStep (kvs : List (Bytes × Bytes)) (acc : List (Bytes × Bytes)) (e : Bool) :
    (kvs.map encodePair).foldl pqStep (acc, e) = (acc ++ kvs, e) := by
  induction kvs generalizing acc with
  | nil => simp
  | cons kv rest ih =>
    simp only [List.map_cons, List.foldl_cons, pqStep_encodePair, ih]
    simp

/-- **Round trip of the form encoding**: any list of key/value pairs (any bytes, empty keys and values
    included), encoded the way clients do, is decoded by `url.ParseQuery` to the same pairs in the same
    order, without error. -/
theorem parseQuery_encodePairs (kvs : List (Bytes × Bytes)) : parseQuery (encodePairs kvs) = (kvs, false) := by
  cases kvs with
  | nil => rfl
  | cons kv rest =>
    rw [parseQuery_eq, splitOn_encodePairs, foldl_pqStep]; simp

/-! ### bytes to string -/

theorem utf8Bytes_toByteArray (s : Str) : (⟨(utf8Bytes s).toArray⟩ : ByteArray) = s.utf8Encode := by
  simp only [List.utf8Encode, utf8Bytes]
  generalize List.flatMap String.utf8EncodeChar s = l
  have := List.data_toByteArray (l := l)
  cases h : l.toByteArray with
  | mk d => rw [h] at this; simp only at this; rw [this]

/-- a UTF-8 string survives the bytes-to-string conversion -/
theorem toStr_utf8Bytes (s : Str) : toStr (utf8Bytes s) = some s := by
  unfold toStr
  rw [utf8Bytes_toByteArray]
  have hv : s.utf8Encode.IsValidUTF8 := ByteArray.isValidUTF8_utf8Encode
  simp only [String.fromUTF8?, hv, dite_true, Option.map_some]
  congr 1
  have : String.fromUTF8 s.utf8Encode hv = String.ofList s := by
    apply String.toByteArray_inj.1
    simp [String.fromUTF8]
  rw [this, String.toList_ofList]

/-! ### the fields read by `PublishHandler` -/

/-- the body a publisher sends for an update -/
def bodyOf (topics : List Str) (retry data id type : Str) (priv : Bool) : Bytes :=
  encodePairs (topics.map (fun t => (utf8Bytes "topic".toList, utf8Bytes t)) ++
    [(utf8Bytes "data".toList, utf8Bytes data), (utf8Bytes "id".toList, utf8Bytes id),
     (utf8Bytes "type".toList, utf8Bytes type), (utf8Bytes "retry".toList, utf8Bytes retry)] ++
    (if priv then [(utf8Bytes "private".toList, utf8Bytes "on".toList)] else []))

theorem kTopic : utf8Bytes "topic".toList = [116, 111, 112, 105, 99] := by decide +kernel
theorem kData : utf8Bytes "data".toList = [100, 97, 116, 97] := by decide +kernel
theorem kId : utf8Bytes "id".toList = [105, 100] := by decide +kernel
theorem kType : utf8Bytes "type".toList = [116, 121, 112, 101] := by decide +kernel
theorem kRetry : utf8Bytes "retry".toList = [114, 101, 116, 114, 121] := by decide +kernel
theorem kPrivate : utf8Bytes "private".toList = [112, 114, 105, 118, 97, 116, 101] := by decide +kernel

theorem kTopic' : utf8Bytes ['t', 'o', 'p', 'i', 'c'] = [116, 111, 112, 105, 99] := by decide +kernel
theorem kData' : utf8Bytes ['d', 'a', 't', 'a'] = [100, 97, 116, 97] := by decide +kernel
theorem kId' : utf8Bytes ['i', 'd'] = [105, 100] := by decide +kernel
theorem kType' : utf8Bytes ['t', 'y', 'p', 'e'] = [116, 121, 112, 101] := by decide +kernel
theorem kRetry' : utf8Bytes ['r', 'e', 't', 'r', 'y'] = [114, 101, 116, 114, 121] := by decide +kernel
theorem kPrivate' : utf8Bytes ['p', 'r', 'i', 'v', 'a', 't', 'e'] = [112, 114, 105, 118, 97, 116, 101] := by decide +kernel

theorem valuesOf_append (a b : List (Bytes × Bytes)) (key : Str) :
    valuesOf (a ++ b) key = valuesOf a key ++ valuesOf b key := by
  simp [valuesOf]

theorem valuesOf_map_const {α} (K : Bytes) (f : α → Bytes) (ts : List α) (key : Str) :
    valuesOf (ts.map (fun t => (K, f t))) key = if K == utf8Bytes key then ts.map f else [] := by
  have ht : ts.filter (fun _ => true) = ts := List.filter_eq_self.2 (fun _ _ => rfl)
  cases h : (K == utf8Bytes key) <;> simp [valuesOf, List.filter_map, Function.comp_def, h, ht]

theorem mapM_toStr' (ts : List Str) : ts.mapM (toStr ∘ utf8Bytes) = some ts := by
  induction ts with
  | nil => rfl
  | cons t ts ih => simp [List.mapM_cons, toStr_utf8Bytes, ih]

/-- **What `PublishHandler` reads is what was posted**: topics in order, data, id, type, the retry
    text and the private flag — for all UTF-8 strings (line breaks, '&', '=', '+', '%', ';', spaces, non-ASCII…). -/
theorem fieldsOf_bodyOf (topics : List Str) (retry data id type : Str) (priv : Bool)
    (hlen : (bodyOf topics retry data id type priv).length ≤ maxFormSize) :
    fieldsOf (bodyOf topics retry data id type priv) =
      some { formOk := true, topics := topics, retry := retry, priv := priv, data := data, id := id, type := type } := by
  unfold fieldsOf parsePostForm
  rw [if_neg (by omega)]
  unfold bodyOf
  rw [parseQuery_encodePairs]
  simp only [getFirst, valuesOf_append, valuesOf_map_const]
  simp only [kTopic, kData, kId, kType, kRetry, kPrivate]
  cases priv <;>
    simp [valuesOf, mapM_toStr', toStr_utf8Bytes, kTopic', kData', kId', kType', kRetry', kPrivate']

/-- **A body over the limit is never read in part**: whatever it contains, `ParseForm` fails and no field
    (topic, data, id, type, retry, private) is taken from it. -/
theorem fieldsOf_too_large (body : Bytes) (h : maxFormSize < body.length) :
    fieldsOf body =
      some { formOk := false, topics := [], retry := [], priv := false, data := [], id := [], type := [] } := by
  unfold fieldsOf parsePostForm
  rw [if_pos h]
  decide

end Mercure.Form
