import Mercure.Model.Hub
import Mercure.Lemmas.SubList
import Mercure.Lemmas.Auth
/-
  Lemmas about histories of the hub model (C01, C15, C20).
-/
set_option linter.unusedSimpArgs false
set_option linter.unusedVariables false
namespace Mercure

/-! ## Infrastructure: a preservation principle for the hub state machine -/
section Infra
variable (M : Str → Str → Bool) (tokP tokS : Str → Option Claims)

def HubSt.mark (st : HubSt) (label : Nat) (b : Bool) : HubSt :=
  { st with conns := updConn st.conns label (fun c =>
              { c with closedOut := true, exited := true, done := true, shutdownOpen := b }),
            index := if b then st.index.filter (· != label) else st.index }

def HubSt.decr (st : HubSt) : HubSt :=
  { st with metrics := { st.metrics with gauge := st.metrics.gauge - 1 }, openStreams := st.openStreams - 1 }

theorem shutdown_none (st : HubSt) (label : Nat) (h : getConn st.conns label = none) :
    st.shutdown M label = st := by
  unfold HubSt.shutdown; simp only [h]

theorem shutdown_done (st : HubSt) (label : Nat) (c : Conn) (h : getConn st.conns label = some c)
    (hd : c.done = true) : st.shutdown M label = st := by
  unfold HubSt.shutdown; simp only [h, hd, if_true]

theorem shutdown_open (st : HubSt) (label : Nat) (c : Conn) (h : getConn st.conns label = some c)
    (hd : c.done = false) (hb : (!st.closed && c.epoch == st.epoch) = true) :
    st.shutdown M label = ((st.mark label true).subscriptionEvents M c false).decr := by
  unfold HubSt.shutdown; simp only [h, hd, hb, if_true, Bool.false_eq_true, if_false]; rfl

theorem shutdown_notopen (st : HubSt) (label : Nat) (c : Conn) (h : getConn st.conns label = some c)
    (hd : c.done = false) (hb : (!st.closed && c.epoch == st.epoch) = false) :
    st.shutdown M label = (st.mark label false).decr := by
  unfold HubSt.shutdown; simp only [h, hd, hb, Bool.false_eq_true, if_false]; rfl

/-- Characterisation of `dispatch`. -/
theorem dispatch_spec (st : HubSt) (u : Update) :
    (st.closed = true ∧ st.dispatch M u = (st, none)) ∨
    (st.closed = false ∧ ∃ (u' : Update) (seq' uuid' : Nat) (db' : List (Nat × Update)),
      u'.topics = u.topics ∧ u'.priv = u.priv ∧
      (match st.kind with
        | .bolt => db' = retain st.size (st.seq + 1) (st.db ++ [(st.seq + 1, u')]) ∧ seq' = st.seq + 1
        | .local => db' = st.db ∧ seq' = st.seq) ∧
      st.dispatch M u =
        ({ st with uuid := uuid', seq := seq', db := db',
                   conns := st.conns.map (fun c =>
                     if st.index.contains c.label && c.matches M u' then (c.enqueue st.cap u').1 else c),
                   lastEventID := u'.id, accepted := st.accepted ++ [u'] }, some u'.id)) := by
  unfold HubSt.dispatch
  cases hc : st.closed
  · right
    refine ⟨rfl, ?_⟩
    simp only [Bool.false_eq_true, if_false]
    by_cases hid : (u.id == []) = true
    · simp only [hid, if_true]
      cases hk : st.kind
      · exact ⟨{ u with id := uuidOf st.uuid }, st.seq, st.uuid + 1, st.db, rfl, rfl, ⟨rfl, rfl⟩, by first | rfl | simp only [hk, hc]⟩
      · exact ⟨{ u with id := uuidOf st.uuid }, st.seq + 1, st.uuid + 1, _, rfl, rfl, ⟨rfl, rfl⟩, by first | rfl | simp only [hk, hc]⟩
    · simp only [hid, Bool.false_eq_true, if_false]
      cases hk : st.kind
      · exact ⟨u, st.seq, st.uuid, st.db, rfl, rfl, ⟨rfl, rfl⟩, by first | rfl | simp only [hk, hc]⟩
      · exact ⟨u, st.seq + 1, st.uuid, _, rfl, rfl, ⟨rfl, rfl⟩, by first | rfl | simp only [hk, hc]⟩
  · left; simp

/-! ### generic preservation principle -/

structure PresCore (P : HubSt → Prop) : Prop where
  dispatch : ∀ st u, P st → P (st.dispatch M u).1
  events : ∀ (st : HubSt) ev, P st → P { st with events := ev }
  pump : ∀ (st : HubSt), P st → P { st with conns := st.conns.map Conn.pump }
  shut : ∀ (st : HubSt) l c b, getConn st.conns l = some c → c.done = false → P st → P (st.mark l b).decr

theorem dispatch_decr (st : HubSt) (u : Update) :
    st.decr.dispatch M u = ((st.dispatch M u).1.decr, (st.dispatch M u).2) := by
  obtain ⟨cfg, kind, size, cap, db, seq, leid, conns, index, closed, epoch, uuid, metrics, accepted,
    events, okPubs, openStreams⟩ := st
  unfold HubSt.dispatch HubSt.decr
  cases closed
  · simp only [Bool.false_eq_true, if_false]
    by_cases hid : (u.id == []) = true
    · simp only [hid, if_true]
      cases kind <;> rfl
    · simp only [hid, Bool.false_eq_true, if_false]
      cases kind <;> rfl
  · rfl

variable {M}

def evStep (M : Str → Str → Bool) (c : Conn) (a : Bool) (st : HubSt) (s : Subscription) : HubSt :=
  match st.dispatch M (subscriptionUpdate s) with
  | (st', some _) => { st' with events := st'.events ++ [(c.label, s.topic, a)] }
  | (st', none) => st'

theorem subscriptionEvents_eq (st : HubSt) (c : Conn) (a : Bool) :
    st.subscriptionEvents M c a =
      if !st.cfg.subscriptions then st else (subDocsOf st.cfg M c [] a).foldl (evStep M c a) st := rfl

theorem evStep_decr (c : Conn) (a : Bool) (st : HubSt) (s : Subscription) :
    evStep M c a st.decr s = (evStep M c a st s).decr := by
  unfold evStep
  rw [dispatch_decr]
  rcases hd : st.dispatch M (subscriptionUpdate s) with ⟨st', _ | id⟩ <;> rfl

theorem foldl_evStep_decr (c : Conn) (a : Bool) (l : List Subscription) (st : HubSt) :
    l.foldl (evStep M c a) st.decr = (l.foldl (evStep M c a) st).decr := by
  induction l generalizing st with
  | nil => rfl
  | cons s l ih => simp only [List.foldl_cons, evStep_decr, ih]

theorem subEvents_decr (st : HubSt) (c : Conn) (a : Bool) :
    st.decr.subscriptionEvents M c a = (st.subscriptionEvents M c a).decr := by
  rw [subscriptionEvents_eq, subscriptionEvents_eq]
  have hcfg : st.decr.cfg = st.cfg := rfl
  rw [hcfg]
  split
  · rfl
  · exact foldl_evStep_decr c a _ st

theorem PresCore.evStep {P : HubSt → Prop} (hP : PresCore M P) (c : Conn) (a : Bool) (st : HubSt)
    (s : Subscription) (h : P st) : P (evStep M c a st s) := by
  unfold Mercure.evStep
  have hd := hP.dispatch st (subscriptionUpdate s) h
  rcases hd' : st.dispatch M (subscriptionUpdate s) with ⟨st', _ | id⟩
  · rw [hd'] at hd; exact hd
  · rw [hd'] at hd; exact hP.events _ _ hd

theorem PresCore.subEvents {P : HubSt → Prop} (hP : PresCore M P) (st : HubSt) (c : Conn) (a : Bool)
    (h : P st) : P (st.subscriptionEvents M c a) := by
  rw [subscriptionEvents_eq]
  split
  · exact h
  · rename_i hx; clear hx
    generalize subDocsOf st.cfg M c [] a = l
    induction l generalizing st with
    | nil => exact h
    | cons s l ih => exact ih _ (hP.evStep c a st s h)

theorem PresCore.shutdown {P : HubSt → Prop} (hP : PresCore M P) (st : HubSt) (l : Nat)
    (h : P st) : P (st.shutdown M l) := by
  cases hg : getConn st.conns l with
  | none => rw [shutdown_none M st l hg]; exact h
  | some c =>
    cases hd : c.done with
    | true => rw [shutdown_done M st l c hg hd]; exact h
    | false =>
      cases hb : (!st.closed && c.epoch == st.epoch) with
      | true =>
        rw [shutdown_open M st l c hg hd hb, ← subEvents_decr]
        exact hP.subEvents _ _ _ (hP.shut st l c true hg hd h)
      | false =>
        rw [shutdown_notopen M st l c hg hd hb]
        exact hP.shut st l c false hg hd h

theorem PresCore.shutdowns {P : HubSt → Prop} (hP : PresCore M P) (ls : List Nat) (st : HubSt)
    (h : P st) : P (ls.foldl (HubSt.shutdown M) st) := by
  induction ls generalizing st with
  | nil => exact h
  | cons l ls ih => exact ih _ (hP.shutdown st l h)

theorem PresCore.settle {P : HubSt → Prop} (hP : PresCore M P) (fuel : Nat) (st : HubSt)
    (h : P st) : P (st.settle M fuel) := by
  induction fuel generalizing st with
  | zero => exact h
  | succ n ih =>
    unfold HubSt.settle
    have h1 := hP.pump st h
    simp only []
    split
    · split
      · exact h1
      · exact ih _ h1
    · exact ih _ (hP.shutdowns _ _ h1)

/-! ### per-connection invariant (C01) -/

structure Conn.Ok (M : Str → Str → Bool) (tokS : Str → Option Claims) (c : Conn) : Prop where
  enq : ∀ u ∈ c.enq, matchTopics M c.sels c.allowed u.topics u.priv = true
  wr : ∀ u, (u ∈ c.written ∨ u ∈ c.out ∨ c.inflight = some u) → u ∈ c.enq
  tok : c.allowed = [] ∨ ∃ s cl, tokS s = some cl ∧ c.allowed = cl.mercure.subscribe.getD []

theorem Conn.enqueue_label (cap : Nat) (c : Conn) (u : Update) : (c.enqueue cap u).1.label = c.label := by
  unfold Conn.enqueue; split
  · rfl
  · split <;> rfl

theorem Conn.enqueue_done (cap : Nat) (c : Conn) (u : Update) : (c.enqueue cap u).1.done = c.done := by
  unfold Conn.enqueue; split
  · rfl
  · split <;> rfl

theorem Conn.enqueue_closedOut (cap : Nat) (c : Conn) (u : Update) (h : c.closedOut = true) :
    (c.enqueue cap u).1.closedOut = true := by
  unfold Conn.enqueue; simp only [h, if_true]

theorem Conn.enqueue_ok {tokS : Str → Option Claims} (cap : Nat) (c : Conn) (u : Update)
    (h : c.Ok M tokS) (hm : c.matches M u = true) : (c.enqueue cap u).1.Ok M tokS := by
  unfold Conn.enqueue; split
  · exact h
  · split
    · refine ⟨?_, ?_, h.tok⟩
      · intro v hv
        simp only [List.mem_append, List.mem_singleton] at hv
        rcases hv with hv | rfl
        · exact h.enq v hv
        · exact hm
      · intro v hv
        simp only [List.mem_append, List.mem_singleton] at hv ⊢
        rcases hv with hv | (hv | hv) | hv
        · exact Or.inl (h.wr v (Or.inl hv))
        · exact Or.inl (h.wr v (Or.inr (Or.inl hv)))
        · exact Or.inr hv
        · exact Or.inl (h.wr v (Or.inr (Or.inr hv)))
    · exact ⟨h.enq, h.wr, h.tok⟩

theorem Conn.replay_label (cap : Nat) (ups : List Update) (c : Conn) :
    (c.replay M cap ups).label = c.label := by
  induction ups generalizing c with
  | nil => rfl
  | cons u us ih =>
    unfold Conn.replay
    split
    · have hl := Conn.enqueue_label cap c u
      split <;> rename_i c' he <;> rw [he] at hl
      · rw [ih]; exact hl
      · exact hl
    · exact ih c

theorem Conn.replay_done (cap : Nat) (ups : List Update) (c : Conn) :
    (c.replay M cap ups).done = c.done := by
  induction ups generalizing c with
  | nil => rfl
  | cons u us ih =>
    unfold Conn.replay
    split
    · have hl := Conn.enqueue_done cap c u
      split <;> rename_i c' he <;> rw [he] at hl
      · rw [ih]; exact hl
      · exact hl
    · exact ih c

theorem Conn.replay_ok {tokS : Str → Option Claims} (cap : Nat) (ups : List Update) (c : Conn)
    (h : c.Ok M tokS) : (c.replay M cap ups).Ok M tokS := by
  induction ups generalizing c with
  | nil => exact h
  | cons u us ih =>
    unfold Conn.replay
    split
    · rename_i hm
      have hl := Conn.enqueue_ok (tokS := tokS) cap c u h hm
      split <;> rename_i c' he <;> rw [he] at hl
      · exact ih _ hl
      · exact hl
    · exact ih c h

theorem Conn.pump_ok {tokS : Str → Option Claims} (c : Conn) (h : c.Ok M tokS) : c.pump.Ok M tokS := by
  obtain ⟨h1, h2, h3⟩ := h
  obtain ⟨label, sid, sels, allowed, payload, reqLEID, respLEID, out, inflight, closedOut, stalled, failNext,
    written, exited, done, joinedAt, replayed, shutdownOpen, epoch, enq⟩ := c
  simp only at h1 h2 h3
  unfold Conn.pump
  cases exited
  case true => exact ⟨h1, h2, h3⟩
  cases stalled
  case true =>
    simp only [Bool.false_eq_true, if_false, if_true]
    cases inflight with
    | some w => exact ⟨h1, h2, h3⟩
    | none =>
      cases out with
      | nil => simp only []; split <;> exact ⟨h1, h2, h3⟩
      | cons u rest =>
        refine ⟨h1, ?_, h3⟩
        intro v hv
        apply h2
        simp only [Option.some.injEq] at hv
        rcases hv with hv | hv | hv
        · exact Or.inl hv
        · exact Or.inr (Or.inl (List.mem_cons_of_mem _ hv))
        · subst hv; exact Or.inr (Or.inl List.mem_cons_self)
  case false =>
    simp only [Bool.false_eq_true, if_false]
    cases inflight with
    | none =>
      simp only [List.nil_append]
      by_cases hf : (failNext && out != []) = true
      · simp only [hf, if_true]
        refine ⟨h1, ?_, h3⟩
        intro v hv
        apply h2
        rcases hv with hv | hv | hv
        · exact Or.inl hv
        · exact Or.inr (Or.inl (List.mem_of_mem_drop hv))
        · simp at hv
      · simp only [hf, Bool.false_eq_true, if_false]
        split <;>
        · refine ⟨h1, ?_, h3⟩
          intro v hv
          apply h2
          simp only [List.mem_append, List.not_mem_nil, reduceCtorEq, or_false] at hv
          rcases hv with hv | hv
          · exact Or.inl hv
          · exact Or.inr (Or.inl hv)
    | some w =>
      by_cases hf : (failNext && [w] ++ out != []) = true
      · simp only [hf, if_true]
        refine ⟨h1, ?_, h3⟩
        intro v hv
        apply h2
        rcases hv with hv | hv | hv
        · exact Or.inl hv
        · exact Or.inr (Or.inl (List.mem_of_mem_drop hv))
        · simp at hv
      · simp only [hf, Bool.false_eq_true, if_false]
        split <;>
        · refine ⟨h1, ?_, h3⟩
          intro v hv
          apply h2
          simp only [List.mem_append, List.mem_singleton, List.not_mem_nil, reduceCtorEq, or_false] at hv
          rcases hv with hv | hv | hv
          · exact Or.inl hv
          · exact Or.inr (Or.inr (by rw [hv]))
          · exact Or.inr (Or.inl hv)

/-! ### frame facts -/

theorem updConn_length (conns : List Conn) (l : Nat) (f : Conn → Conn) :
    (updConn conns l f).length = conns.length := by
  unfold updConn; simp only [List.length_map]

theorem presCore_closed (b : Bool) : PresCore M (fun st => st.closed = b) where
  dispatch st u h := by
    rcases dispatch_spec M st u with ⟨_, h2⟩ | ⟨_, u', s', uu', db', _, _, _, h2⟩ <;> rw [h2] <;> exact h
  events st ev h := h
  pump st h := h
  shut st l c b' _ _ h := by
    unfold HubSt.mark HubSt.decr
    cases b' <;> exact h

theorem subEvents_closed (st : HubSt) (c : Conn) (a : Bool) :
    (st.subscriptionEvents M c a).closed = st.closed :=
  (presCore_closed st.closed).subEvents st c a rfl

theorem settle_closed (st : HubSt) (n : Nat) : (st.settle M n).closed = st.closed :=
  (presCore_closed st.closed).settle n st rfl

theorem subEvents_of_closed (st : HubSt) (c : Conn) (a : Bool) (h : st.closed = true) :
    st.subscriptionEvents M c a = st := by
  rw [subscriptionEvents_eq]
  split
  · rfl
  · generalize subDocsOf st.cfg M c [] a = l
    induction l with
    | nil => rfl
    | cons s l ih =>
      simp only [List.foldl_cons]
      have : evStep M c a st s = st := by
        unfold evStep
        rcases dispatch_spec M st (subscriptionUpdate s) with ⟨_, h2⟩ | ⟨h1, _⟩
        · rw [h2]
        · rw [h] at h1; cases h1
      rw [this]; exact ih


/-! ### decomposition of `connect` -/

def mkConn (M : Str → Str → Bool) (st : HubSt) (c0 : Conn) (leid : Str) : Option Str × Conn :=
  if leid == [] then (none, c0)
  else match st.kind with
    | .local => (some earliest, c0)
    | .bolt => (some (negotiate st.db leid).1,
                { c0.replay M st.cap (negotiate st.db leid).2 with replayed := (negotiate st.db leid).2 })

def HubSt.addConn (st : HubSt) (label : Nat) (resp : Option Str) (conn : Conn) : HubSt :=
  { st with conns := st.conns ++ [{ conn with respLEID := resp, joinedAt := st.accepted.length }],
            index := st.index ++ [label],
            metrics := { st.metrics with total := st.metrics.total + 1, gauge := st.metrics.gauge + 1 },
            openStreams := st.openStreams + 1 }

/-- A freshly created connection record. -/
structure IsConn0 (c0 : Conn) (label : Nat) (priv : List Str) : Prop where
  label : c0.label = label
  allowed : c0.allowed = priv
  done : c0.done = false
  enq : c0.enq = []
  written : c0.written = []
  out : c0.out = []
  inflight : c0.inflight = none

theorem connect_refused (st : HubSt) (label : Nat) (r : SubReq) (s : Nat) (b : Str)
    (h : subscribeDecision st.cfg tokS r = .refused s b) :
    st.connect M tokS label r = ({ st with uuid := st.uuid + 1 }, { status := s, body := b, respLEID := none }) := by
  unfold HubSt.connect
  simp only [h]

theorem connect_accepted (st : HubSt) (label : Nat) (r : SubReq) (c : Option Claims) (priv : List Str) (leid : Str)
    (h : subscribeDecision st.cfg tokS r = .accepted c priv leid) :
    ∃ c0 : Conn, IsConn0 c0 label priv ∧
      ((st.closed = true ∧ st.connect M tokS label r =
          (HubSt.subscriptionEvents M (HubSt.subscriptionEvents M { st with uuid := st.uuid + 1 } c0 true) c0 false,
           { status := 503, body := "Service Unavailable\n".toList, respLEID := none })) ∨
       (st.closed = false ∧ ∃ st2, st2 = HubSt.subscriptionEvents M { st with uuid := st.uuid + 1 } c0 true ∧
          st.connect M tokS label r =
            ((st2.addConn label (mkConn M st2 c0 leid).1 (mkConn M st2 c0 leid).2).settle M
                ((st2.addConn label (mkConn M st2 c0 leid).1 (mkConn M st2 c0 leid).2).conns.length + 2),
             { status := 200, body := [], respLEID := (mkConn M st2 c0 leid).1 }))) := by
  have key : ∀ payload : Str, ∃ c0 : Conn,
      c0 = { label := label, sid := uuidOf st.uuid, sels := r.topics, allowed := priv,
             payload := payload, reqLEID := leid, respLEID := none, epoch := st.epoch } ∧
      IsConn0 c0 label priv :=
    fun payload => ⟨_, rfl, ⟨rfl, rfl, rfl, rfl, rfl, rfl, rfl⟩⟩
  unfold HubSt.connect
  simp only [h]
  cases c with
  | none =>
    obtain ⟨c0, hc0, hI⟩ := key []
    refine ⟨c0, hI, ?_⟩
    simp only [← hc0]
    split
    · rename_i hc
      rw [subEvents_closed] at hc
      exact Or.inl ⟨hc, rfl⟩
    · rename_i hc
      rw [subEvents_closed] at hc
      refine Or.inr ⟨by simpa using hc, _, rfl, ?_⟩
      unfold mkConn HubSt.addConn
      generalize HubSt.subscriptionEvents M _ c0 true = st2
      by_cases hl : (leid == []) = true
      · simp only [hl, if_true]
      · simp only [hl, Bool.false_eq_true, if_false]
        cases st2.kind <;> rfl
  | some cl =>
    obtain ⟨c0, hc0, hI⟩ := key cl.mercure.payload
    refine ⟨c0, hI, ?_⟩
    simp only [← hc0]
    split
    · rename_i hc
      rw [subEvents_closed] at hc
      exact Or.inl ⟨hc, rfl⟩
    · rename_i hc
      rw [subEvents_closed] at hc
      refine Or.inr ⟨by simpa using hc, _, rfl, ?_⟩
      unfold mkConn HubSt.addConn
      generalize HubSt.subscriptionEvents M _ c0 true = st2
      by_cases hl : (leid == []) = true
      · simp only [hl, if_true]
      · simp only [hl, Bool.false_eq_true, if_false]
        cases st2.kind <;> rfl

/-! ### decomposition of `connectFailing` -/

theorem connectFailing_refused (st : HubSt) (label : Nat) (r : SubReq) (s : Nat) (b : Str)
    (h : subscribeDecision st.cfg tokS r = .refused s b) :
    st.connectFailing M tokS label r =
      ({ st with uuid := st.uuid + 1 }, { status := s, body := b, respLEID := none }) := by
  unfold HubSt.connectFailing
  simp only [h]

/-- An authorised failing registration: the two rounds of subscription events, then the ghost entry,
    then every handler runs to quiescence. -/
theorem connectFailing_accepted (st : HubSt) (label : Nat) (r : SubReq) (c : Option Claims) (priv : List Str)
    (leid : Str) (h : subscribeDecision st.cfg tokS r = .accepted c priv leid) :
    ∃ (c0 : Conn) (st2 st3 : HubSt), IsConn0 c0 label priv ∧ c0.sels = r.topics ∧
      st2 = HubSt.subscriptionEvents M (HubSt.subscriptionEvents M { st with uuid := st.uuid + 1 } c0 true) c0 false ∧
      st3 = { st2 with failed := st2.failed ++ [(label, r.topics, !st.closed)] } ∧
      st.connectFailing M tokS label r =
        (st3.settle M (st3.conns.length + 2),
         { status := 503, body := "Service Unavailable\n".toList, respLEID := none }) := by
  unfold HubSt.connectFailing
  simp only [h]
  exact ⟨_, _, _, ⟨rfl, rfl, rfl, rfl, rfl, rfl, rfl⟩, rfl, rfl, rfl, rfl⟩

/-! ### labels are never changed -/

def labels (st : HubSt) : List Nat := st.conns.map (·.label)

theorem Conn.pump_static (c : Conn) :
    c.pump.label = c.label ∧ c.pump.done = c.done ∧ c.pump.closedOut = c.closedOut := by
  simp only [Conn.pump]
  repeat' split
  all_goals exact ⟨rfl, rfl, rfl⟩

theorem Conn.pump_label (c : Conn) : c.pump.label = c.label := c.pump_static.1

theorem map_label_congr (l : List Conn) (f : Conn → Conn) (hf : ∀ c, (f c).label = c.label) :
    (l.map f).map (·.label) = l.map (·.label) := by
  rw [List.map_map]
  apply List.map_congr_left
  intro c _
  exact hf c

theorem updConn_labels (conns : List Conn) (l : Nat) (f : Conn → Conn) (hf : ∀ c, (f c).label = c.label) :
    (updConn conns l f).map (·.label) = conns.map (·.label) := by
  unfold updConn
  apply map_label_congr
  intro c; split
  · exact hf c
  · rfl

theorem presCore_labels (L : List Nat) : PresCore M (fun st => labels st = L) where
  dispatch st u h := by
    rcases dispatch_spec M st u with ⟨_, h2⟩ | ⟨_, u', s', uu', db', _, _, _, h2⟩ <;> rw [h2]
    · exact h
    · rw [← h]
      unfold labels
      apply map_label_congr
      intro c; split
      · exact Conn.enqueue_label _ _ _
      · rfl
  events st ev h := h
  pump st h := by
    rw [← h]; exact map_label_congr _ _ Conn.pump_label
  shut st l c b' _ _ h := by
    rw [← h]
    unfold HubSt.mark HubSt.decr labels
    cases b' <;> exact updConn_labels _ _ _ (fun _ => rfl)

theorem subEvents_labels (st : HubSt) (c : Conn) (a : Bool) :
    labels (st.subscriptionEvents M c a) = labels st :=
  (presCore_labels (labels st)).subEvents st c a rfl

/-! ### the principle at the level of operations -/

/-- What a connection satisfies when it is registered. -/
structure NewConn (M : Str → Str → Bool) (tokS : Str → Option Claims) (label : Nat) (conn : Conn) : Prop where
  label : conn.label = label
  done : conn.done = false
  ok : conn.Ok M tokS

structure Pres (M : Str → Str → Bool) (P : HubSt → Prop) : Prop extends PresCore M P where
  uuid : ∀ st : HubSt, P st → P { st with uuid := st.uuid + 1 }
  pubOk : ∀ st : HubSt, P st →
    P { st with metrics := { st.metrics with updates := st.metrics.updates + 1 }, okPubs := st.okPubs + 1 }
  tweak : ∀ (st : HubSt) (l : Nat) (s fn : Conn → Bool) (clr : Bool), P st →
    P { st with conns := updConn st.conns l (fun c =>
          { c with stalled := s c, failNext := fn c, inflight := if clr then none else c.inflight }) }
  closeMark : ∀ st : HubSt, st.closed = false → P st →
    P { st with closed := true,
                conns := st.conns.map (fun (c : Conn) =>
                  if st.index.contains c.label then { c with closedOut := true } else c) }
  reopen : ∀ (st : HubSt) (leid : Str) (db' : List (Nat × Update)), st.closed = true →
    (st.kind = .bolt → db' = st.db) → P st →
    P { st with closed := false, index := [], epoch := st.epoch + 1, db := db', lastEventID := leid }
  failed : ∀ (st : HubSt) (fl : List (Nat × List Str × Bool)), P st → P { st with failed := fl }

variable {P : HubSt → Prop}

theorem Pres.publish (hP : Pres M P) (st : HubSt) (r : PubReq) (h : P st) : P (st.publish M tokP r).1 := by
  unfold HubSt.publish
  split
  · exact h
  · rename_i u _
    have hd := hP.dispatch st u h
    split <;> rename_i hd' <;> rw [hd'] at hd
    · exact hP.settle _ _ (hP.pubOk _ hd)
    · exact hd

theorem Pres.clientClose (hP : Pres M P) (st : HubSt) (l : Nat) (h : P st) : P (st.clientClose M l) := by
  unfold HubSt.clientClose
  split
  · exact h
  · split
    · exact h
    · exact hP.settle _ _ (hP.shutdown _ _ (hP.tweak st l (fun _ => false) Conn.failNext true h))

theorem Pres.setStalled (hP : Pres M P) (st : HubSt) (l : Nat) (b : Bool) (h : P st) :
    P (st.setStalled M l b) := by
  unfold HubSt.setStalled
  exact hP.settle _ _ (hP.tweak st l (fun _ => b) Conn.failNext false h)

theorem Pres.failNextWrite (hP : Pres M P) (st : HubSt) (l : Nat) (h : P st) :
    P (st.failNextWrite l) := by
  unfold HubSt.failNextWrite
  exact hP.tweak st l Conn.stalled (fun _ => true) false h

theorem Pres.close (hP : Pres M P) (st : HubSt) (h : P st) : P (st.close M) := by
  unfold HubSt.close
  split
  · exact h
  · rename_i hc
    exact hP.settle _ _ (hP.closeMark st (by simpa using hc) h)

theorem subscribeDecision_priv (cfg : HubCfg) (r : SubReq) (c : Option Claims) (p : List Str) (l : Str)
    (h : subscribeDecision cfg tokS r = .accepted c p l) :
    p = [] ∨ ∃ s cl, tokS s = some cl ∧ p = cl.mercure.subscribe.getD [] := by
  unfold subscribeDecision at h
  cases hk : cfg.subKey
  · simp only [hk, Bool.false_eq_true, if_false, Bool.false_and] at h
    split at h
    · simp at h
    · simp at h; left; simp [← h.2.1]
  · simp only [hk, if_true] at h
    cases ha : authorize cfg.minHeader cfg.minQuery tokS r.auth [] with
    | error e => simp [ha] at h
    | ok oc =>
      simp only [ha] at h
      split at h
      · simp at h
      · split at h
        · simp at h
        · simp only [SubDecision.accepted.injEq] at h
          obtain ⟨rfl, rfl, -⟩ := h
          cases oc with
          | none => left; rfl
          | some cl =>
            right
            obtain ⟨s, hs⟩ := authorize_ok_some ha
            exact ⟨s, cl, hs, rfl⟩

theorem subscribeDecision_status (cfg : HubCfg) (r : SubReq) (s : Nat) (b : Str)
    (h : subscribeDecision cfg tokS r = .refused s b) : s ≠ 200 := by
  unfold subscribeDecision at h
  generalize unauthorizedBody = ub at h
  generalize String.toList _ = mb at h
  simp only [] at h
  generalize (if cfg.subKey = true then authorize cfg.minHeader cfg.minQuery tokS r.auth [] else Except.ok none) = a at h
  cases a with
  | error e =>
    simp only [SubDecision.refused.injEq] at h
    obtain ⟨rfl, _⟩ := h; decide
  | ok c =>
    simp only [] at h
    split at h
    · simp only [SubDecision.refused.injEq] at h
      obtain ⟨rfl, _⟩ := h; decide
    · split at h
      · simp only [SubDecision.refused.injEq] at h
        obtain ⟨rfl, _⟩ := h; decide
      · cases h

theorem mkConn_new (st : HubSt) (c0 : Conn) (leid : Str) (label : Nat) (priv : List Str)
    (h0 : IsConn0 c0 label priv)
    (htok : priv = [] ∨ ∃ s cl, tokS s = some cl ∧ priv = cl.mercure.subscribe.getD []) :
    NewConn M tokS label (mkConn M st c0 leid).2 := by
  have hok : c0.Ok M tokS := by
    refine ⟨?_, ?_, ?_⟩
    · intro u hu; rw [h0.enq] at hu; cases hu
    · intro u hu
      rw [h0.written, h0.out, h0.inflight] at hu
      simp at hu
    · rw [h0.allowed]; exact htok
  have hn : NewConn M tokS label c0 := ⟨h0.label, h0.done, hok⟩
  unfold mkConn
  split
  · exact hn
  · split
    · exact hn
    · refine ⟨?_, ?_, ?_⟩
      · show (c0.replay M st.cap _).label = label
        rw [Conn.replay_label]; exact h0.label
      · show (c0.replay M st.cap _).done = false
        rw [Conn.replay_done]; exact h0.done
      · have := Conn.replay_ok (tokS := tokS) st.cap (negotiate st.db leid).2 c0 hok
        exact ⟨this.enq, this.wr, this.tok⟩

variable {tokS}

theorem Pres.connect (hP : Pres M P) (st : HubSt) (label : Nat) (r : SubReq)
    (hconn : ∀ (st' : HubSt) resp conn, labels st' = labels st → st'.closed = false →
      NewConn M tokS label conn → P st' → P (st'.addConn label resp conn))
    (h : P st) : P (st.connect M tokS label r).1 := by
  cases hd : subscribeDecision st.cfg tokS r with
  | refused s b => rw [connect_refused tokS st label r s b hd]; exact hP.uuid st h
  | accepted c priv leid =>
    obtain ⟨c0, h0, hcase⟩ := connect_accepted tokS st label r c priv leid hd
    have h1 := hP.subEvents _ c0 true (hP.uuid st h)
    rcases hcase with ⟨_, he⟩ | ⟨hc, st2, hst2, he⟩
    · rw [he]; exact hP.subEvents _ c0 false h1
    · rw [he]
      apply hP.settle
      rw [← hst2] at h1
      apply hconn st2 _ _ _ _ (mkConn_new tokS st2 c0 leid label priv h0 (subscribeDecision_priv tokS _ r c priv leid hd)) h1
      · rw [hst2, subEvents_labels]; rfl
      · rw [hst2, subEvents_closed]; exact hc

theorem Pres.connectFailing (hP : Pres M P) (st : HubSt) (label : Nat) (r : SubReq)
    (h : P st) : P (st.connectFailing M tokS label r).1 := by
  cases hd : subscribeDecision st.cfg tokS r with
  | refused s b => rw [connectFailing_refused tokS st label r s b hd]; exact hP.uuid st h
  | accepted c priv leid =>
    obtain ⟨c0, st2, st3, _, _, h2, h3, he⟩ := connectFailing_accepted (M := M) tokS st label r c priv leid hd
    rw [he]
    apply hP.settle
    rw [h3]
    apply hP.failed
    rw [h2]
    exact hP.subEvents _ c0 false (hP.subEvents _ c0 true (hP.uuid st h))

theorem close_closed' (st : HubSt) : (st.close M).closed = true := by
  unfold HubSt.close
  split
  · assumption
  · rw [settle_closed]

theorem Pres.restart (hP : Pres M P) (st : HubSt) (h : P st) : P (st.restart M) := by
  unfold HubSt.restart
  exact hP.reopen (st.close M) _ _ (close_closed' st) (fun hk => by simp only [hk]) (hP.close st h)

theorem Pres.step (hP : Pres M P) (st : HubSt) (op : HubOp)
    (hconn : ∀ label r, op = .connect label r → ∀ (st' : HubSt) resp conn, labels st' = labels st →
      st'.closed = false → NewConn M tokS label conn → P st' → P (st'.addConn label resp conn))
    (h : P st) : P (st.step M tokP tokS op) := by
  cases op with
  | publish r => exact hP.publish tokP st r h
  | connect l r => exact hP.connect st l r (hconn l r rfl) h
  | connectFail l r => exact hP.connectFailing st l r h
  | clientClose l => exact hP.clientClose st l h
  | stall l b => exact hP.setStalled st l b h
  | failNext l => exact hP.failNextWrite st l h
  | close => exact hP.close st h
  | restart => exact hP.restart st h

theorem Pres.run (hP : Pres M P)
    (hconn : ∀ label (st' : HubSt) resp conn, st'.closed = false → NewConn M tokS label conn → P st' →
      P (st'.addConn label resp conn))
    (ops : List HubOp) (st : HubSt) (h : P st) : P (st.run M tokP tokS ops) := by
  unfold HubSt.run
  induction ops generalizing st with
  | nil => exact h
  | cons op ops ih =>
    exact ih _ (hP.step tokP st op (fun l r _ st' resp conn _ hc hn hp => hconn l st' resp conn hc hn hp) h)
end Infra

/-! ## Invariants of reachable states (implicit parameters) -/
section Invariants
variable {M : Str → Str → Bool} {tokP tokS : Str → Option Claims}

theorem all_map_conns {Q : Conn → Prop} {f : Conn → Conn} {l : List Conn} (hf : ∀ c, Q c → Q (f c))
    (h : ∀ c ∈ l, Q c) : ∀ c ∈ l.map f, Q c := by
  intro c hc
  rcases List.mem_map.1 hc with ⟨c0, h0, rfl⟩
  exact hf _ (h _ h0)

theorem all_updConn {Q : Conn → Prop} {f : Conn → Conn} {l : List Conn} (lab : Nat) (hf : ∀ c, Q c → Q (f c))
    (h : ∀ c ∈ l, Q c) : ∀ c ∈ updConn l lab f, Q c := by
  unfold updConn
  apply all_map_conns _ h
  intro c hc
  split
  · exact hf c hc
  · exact hc

theorem pres_ok : Pres M (fun st => ∀ c ∈ st.conns, c.Ok M tokS) where
  dispatch st u h := by
    rcases dispatch_spec M st u with ⟨_, h2⟩ | ⟨_, u', s', uu', db', _, _, _, h2⟩ <;> rw [h2]
    · exact h
    · apply all_map_conns _ h
      intro c hc
      split
      · rename_i hm
        simp only [Bool.and_eq_true] at hm
        exact Conn.enqueue_ok _ _ _ hc hm.2
      · exact hc
  events st ev h := h
  pump st h := all_map_conns (fun c hc => Conn.pump_ok c hc) h
  shut st l c b' _ _ h := by
    exact all_updConn _ (fun c hc => ⟨hc.enq, hc.wr, hc.tok⟩) h
  uuid st h := h
  pubOk st h := h
  tweak st l s fn clr h := by
    apply all_updConn _ _ h
    intro c hc
    refine ⟨hc.enq, ?_, hc.tok⟩
    intro v hv
    apply hc.wr
    cases clr
    · exact hv
    · rcases hv with hv | hv | hv
      · exact Or.inl hv
      · exact Or.inr (Or.inl hv)
      · simp at hv
  closeMark st _ h := by
    apply all_map_conns _ h
    intro c hc
    split
    · exact ⟨hc.enq, hc.wr, hc.tok⟩
    · exact hc
  reopen st leid db' _ _ h := h
  failed st fl h := h

theorem run_ok (ops : List HubOp) (st : HubSt) (h : ∀ c ∈ st.conns, c.Ok M tokS) :
    ∀ c ∈ (st.run M tokP tokS ops).conns, c.Ok M tokS := by
  refine pres_ok.run tokP ?_ ops st h
  intro label st' resp conn _ hn h' c hc
  unfold HubSt.addConn at hc
  simp only [List.mem_append, List.mem_singleton] at hc
  rcases hc with hc | rfl
  · exact h' c hc
  · exact ⟨hn.ok.enq, hn.ok.wr, hn.ok.tok⟩

theorem reach_ok (cfg : HubCfg) (kind : Kind) (size cap : Nat) (ops : List HubOp) :
    ∀ c ∈ (HubSt.reach M tokP tokS cfg kind size cap ops).conns, c.Ok M tokS := by
  unfold HubSt.reach
  apply run_ok
  intro c hc
  cases hc

/-! ### C20: metrics -/

def MetricsInv (st : HubSt) : Prop :=
  st.metrics.gauge = st.openStreams ∧ st.metrics.total = st.conns.length ∧ st.metrics.updates = st.okPubs

theorem pres_metrics : Pres M MetricsInv where
  dispatch st u h := by
    rcases dispatch_spec M st u with ⟨_, h2⟩ | ⟨_, u', s', uu', db', _, _, _, h2⟩ <;> rw [h2]
    · exact h
    · obtain ⟨h1, h2, h3⟩ := h
      exact ⟨h1, by simpa only [List.length_map] using h2, h3⟩
  events st ev h := h
  pump st h := by
    obtain ⟨h1, h2, h3⟩ := h
    exact ⟨h1, by simpa only [List.length_map] using h2, h3⟩
  shut st l c b' _ _ h := by
    obtain ⟨h1, h2, h3⟩ := h
    unfold HubSt.mark HubSt.decr MetricsInv
    refine ⟨?_, ?_, h3⟩
    · simp only [h1]
    · simpa only [updConn_length] using h2
  uuid st h := h
  pubOk st h := by
    obtain ⟨h1, h2, h3⟩ := h
    exact ⟨h1, h2, by simp only [h3]⟩
  tweak st l s fn clr h := by
    obtain ⟨h1, h2, h3⟩ := h
    exact ⟨h1, by simpa only [updConn_length] using h2, h3⟩
  closeMark st _ h := by
    obtain ⟨h1, h2, h3⟩ := h
    exact ⟨h1, by simpa only [List.length_map] using h2, h3⟩
  reopen st leid db' _ _ h := h
  failed st fl h := h

theorem run_metrics (ops : List HubOp) (st : HubSt) (h : MetricsInv st) :
    MetricsInv (st.run M tokP tokS ops) := by
  refine pres_metrics.run tokP ?_ ops st h
  intro label st' resp conn _ hn h'
  obtain ⟨h1, h2, h3⟩ := h'
  unfold HubSt.addConn MetricsInv
  refine ⟨?_, ?_, h3⟩
  · simp only [h1]
  · simp only [h2, List.length_append, List.length_singleton]

/-! ### C15: Bolt without retention stores exactly the accepted updates -/

def DbInv (st : HubSt) : Prop :=
  st.db.map (·.2) = st.accepted ∧ st.kind = .bolt ∧ st.size = 0

theorem pres_db : Pres M DbInv where
  dispatch st u h := by
    obtain ⟨h1, hk, hs⟩ := h
    rcases dispatch_spec M st u with ⟨_, h2⟩ | ⟨_, u', s', uu', db', _, _, hdb, h2⟩ <;> rw [h2]
    · exact ⟨h1, hk, hs⟩
    · rw [hk] at hdb
      simp only [hs] at hdb
      obtain ⟨hdb, _⟩ := hdb
      refine ⟨?_, hk, hs⟩
      subst hdb
      unfold retain
      simp only [BEq.rfl, Bool.true_or, if_true, List.map_append, List.map_cons, List.map_nil, h1]
  events st ev h := h
  pump st h := h
  shut st l c b' _ _ h := by
    exact h
  uuid st h := h
  pubOk st h := h
  tweak st l s fn clr h := h
  closeMark st _ h := h
  reopen st leid db' _ hdb h := by
    obtain ⟨h1, hk, hs⟩ := h
    refine ⟨?_, hk, hs⟩
    simp only [hdb hk]
    exact h1
  failed st fl h := h

theorem run_db (ops : List HubOp) (st : HubSt) (h : DbInv st) : DbInv (st.run M tokP tokS ops) := by
  refine pres_db.run tokP ?_ ops st h
  intro label st' resp conn _ hn h'
  exact h'

/-! ### counting connections -/

def undone (conns : List Conn) : Nat := (conns.filter (fun c => !c.done)).length

theorem undone_map (l : List Conn) (f : Conn → Conn) (hf : ∀ c, (f c).done = c.done) :
    undone (l.map f) = undone l := by
  unfold undone
  induction l with
  | nil => rfl
  | cons x xs ih =>
    simp only [List.map_cons, List.filter_cons, hf x]
    split
    · simp only [List.length_cons, ih]
    · exact ih

theorem undone_updConn (l : List Conn) (lab : Nat) (f : Conn → Conn) (hf : ∀ c, (f c).done = c.done) :
    undone (updConn l lab f) = undone l := by
  unfold updConn
  apply undone_map
  intro c; split
  · exact hf c
  · rfl

theorem updConn_of_not_mem (l : List Conn) (lab : Nat) (f : Conn → Conn) (h : lab ∉ l.map (·.label)) :
    updConn l lab f = l := by
  unfold updConn
  induction l with
  | nil => rfl
  | cons x xs ih =>
    simp only [List.map_cons, List.mem_cons, not_or] at h
    have hx : (x.label == lab) = false := by
      simp only [beq_eq_false_iff_ne, ne_eq]; exact fun e => h.1 e.symm
    simp only [List.map_cons, hx, Bool.false_eq_true, if_false, ih h.2]

theorem undone_mark (l : List Conn) (lab : Nat) (c : Conn) (f : Conn → Conn)
    (hf : ∀ c, (f c).done = true) (hn : (l.map (·.label)).Nodup)
    (hg : getConn l lab = some c) (hd : c.done = false) :
    undone (updConn l lab f) + 1 = undone l := by
  induction l with
  | nil => cases hg
  | cons x xs ih =>
    simp only [List.map_cons, List.nodup_cons] at hn
    unfold getConn at hg
    simp only [List.find?_cons] at hg
    cases hx : (x.label == lab) with
    | true =>
      simp only [hx, Option.some.injEq] at hg
      subst hg
      have hl : x.label = lab := by simpa using hx
      have := updConn_of_not_mem xs lab f (hl ▸ hn.1)
      unfold updConn at this ⊢
      unfold undone
      simp only [List.map_cons, hx, if_true, this, List.filter_cons, hf x, hd, Bool.not_true, Bool.not_false,
        Bool.false_eq_true, if_false, List.length_cons]
    | false =>
      simp only [hx] at hg
      have := ih hn.2 hg
      unfold updConn at this ⊢
      unfold undone at this ⊢
      simp only [List.map_cons, hx, Bool.false_eq_true, if_false, List.filter_cons]
      split
      · simp only [List.length_cons]; omega
      · exact this

theorem dispatch_labels (st : HubSt) (u : Update) : labels (st.dispatch M u).1 = labels st :=
  (presCore_labels (M := M) (labels st)).dispatch st u rfl

theorem Q_of_labels_eq {Q : List Nat → Prop} {s t : HubSt} (e : labels s = labels t) (h : Q (labels t)) :
    Q (labels s) := e ▸ h

theorem pres_labels (Q : List Nat → Prop) : Pres M (fun st => Q (labels st)) where
  dispatch st u h := by rw [dispatch_labels]; exact h
  events st ev h := h
  pump st h := by
    have : labels { st with conns := st.conns.map Conn.pump } = labels st :=
      (presCore_labels (M := M) (labels st)).pump st rfl
    rw [this]; exact h
  shut st l c b' hg hd h := by
    have : labels (st.mark l b').decr = labels st :=
      (presCore_labels (M := M) (labels st)).shut st l c b' hg hd rfl
    rw [this]; exact h
  uuid st h := h
  pubOk st h := h
  tweak st l s fn clr h :=
    Q_of_labels_eq (updConn_labels _ _ _ (fun _ => rfl)) h
  closeMark st _ h :=
    Q_of_labels_eq (map_label_congr _ _ (fun c => by split <;> rfl)) h
  reopen st leid db' _ _ h := h
  failed st fl h := h

theorem addConn_labels (st : HubSt) (l : Nat) (resp : Option Str) (conn : Conn) (h : conn.label = l) :
    labels (st.addConn l resp conn) = labels st ++ [l] := by
  unfold labels HubSt.addConn
  simp only [List.map_append, List.map_cons, List.map_nil, h]

/-- The labels after a step: those before, plus the label of a `connect`. -/
theorem step_labels_sub (st : HubSt) (op : HubOp) :
    ∀ x ∈ labels (st.step M tokP tokS op), x ∈ labels st ∨ op.connectLabel = some x := by
  refine (pres_labels (M := M) (fun L => ∀ x ∈ L, x ∈ labels st ∨ op.connectLabel = some x)).step tokP st op ?_
    (fun x hx => Or.inl hx)
  intro l r hop st' resp conn hl _ hn h x hx
  rw [addConn_labels _ _ _ _ hn.label, List.mem_append, List.mem_singleton] at hx
  rcases hx with hx | rfl
  · exact h x hx
  · right; rw [hop]; rfl

/-! ### C20: open streams -/

def CountInv (st : HubSt) : Prop :=
  (labels st).Nodup ∧ st.openStreams = (undone st.conns : Int)

theorem pres_count : Pres M CountInv where
  dispatch st u h := by
    refine ⟨by rw [dispatch_labels]; exact h.1, ?_⟩
    rcases dispatch_spec M st u with ⟨_, h2⟩ | ⟨_, u', s', uu', db', _, _, _, h2⟩ <;> rw [h2]
    · exact h.2
    · show st.openStreams = _
      rw [undone_map]
      · exact h.2
      · intro c; split
        · exact Conn.enqueue_done _ _ _
        · rfl
  events st ev h := h
  pump st h := by
    refine ⟨(pres_labels (M := M) List.Nodup).pump st h.1, ?_⟩
    show st.openStreams = _
    rw [undone_map _ _ (fun c => c.pump_static.2.1)]
    exact h.2
  shut st l c b' hg hd h := by
    refine ⟨(pres_labels (M := M) List.Nodup).shut st l c b' hg hd h.1, ?_⟩
    have := undone_mark st.conns l c (fun c =>
              { c with closedOut := true, exited := true, done := true, shutdownOpen := b' })
              (fun _ => rfl) h.1 hg hd
    have h2 := h.2
    show st.openStreams - 1 = (undone (updConn st.conns l _) : Int)
    omega
  uuid st h := h
  pubOk st h := h
  tweak st l s fn clr h := by
    refine ⟨(pres_labels (M := M) List.Nodup).tweak st l s fn clr h.1, ?_⟩
    have := undone_updConn st.conns l (fun c =>
          { c with stalled := s c, failNext := fn c, inflight := if clr then none else c.inflight }) (fun _ => rfl)
    show st.openStreams = (undone (updConn st.conns l _) : Int)
    rw [this]; exact h.2
  closeMark st hc h := by
    refine ⟨(pres_labels (M := M) List.Nodup).closeMark st hc h.1, ?_⟩
    show st.openStreams = _
    rw [undone_map]
    · exact h.2
    · intro c; split <;> rfl
  reopen st leid db' _ _ h := h
  failed st fl h := h

theorem run_count (ops : List HubOp) (st : HubSt) (h : CountInv st) (hf : FreshLabels ops)
    (hdisj : ∀ l ∈ ops.filterMap HubOp.connectLabel, l ∉ labels st) :
    CountInv (st.run M tokP tokS ops) := by
  unfold HubSt.run
  induction ops generalizing st with
  | nil => exact h
  | cons op ops ih =>
    simp only [List.foldl_cons]
    have hstep : CountInv (st.step M tokP tokS op) := by
      refine pres_count.step tokP st op ?_ h
      intro l r hop st' resp conn hl _ hn h'
      have hl' : l ∉ labels st' := by
        rw [hl]; apply hdisj
        rw [hop]; simp [HubOp.connectLabel]
      refine ⟨?_, ?_⟩
      · rw [addConn_labels _ _ _ _ hn.label]
        rw [List.nodup_append]
        refine ⟨h'.1, by simp, ?_⟩
        intro a ha b hb
        rw [List.mem_singleton] at hb
        subst hb
        exact fun e => hl' (e ▸ ha)
      · have h2 := h'.2
        unfold HubSt.addConn undone at *
        simp only [List.filter_append, List.length_append, List.filter_cons, hn.done, Bool.not_false, if_true,
          List.filter_nil, List.length_cons, List.length_nil]
        omega
    unfold FreshLabels at hf
    apply ih _ hstep
    · unfold FreshLabels
      cases hc : op.connectLabel with
      | none => simpa only [List.filterMap_cons, hc] using hf
      | some l =>
        simp only [List.filterMap_cons, hc, List.nodup_cons] at hf
        exact hf.2
    · intro l hl hmem
      rcases step_labels_sub st op l hmem with h1 | h1
      · exact hdisj l (by
          cases hc : op.connectLabel with
          | none => simpa only [List.filterMap_cons, hc] using hl
          | some l' => simp only [List.filterMap_cons, hc, List.mem_cons]; exact Or.inr hl) h1
      · simp only [List.filterMap_cons, h1, List.nodup_cons] at hf
        exact hf.1 hl
end Invariants

/-! ## Single operations -/
section Single
variable (M : Str → Str → Bool) (tokP tokS : Str → Option Claims)

theorem publish_refused_status (cfg : HubCfg) (r : PubReq) (s : Nat) (b : Str)
    (h : Mercure.publish cfg M tokP r = .refused s b) : s ≠ 200 := by
  unfold Mercure.publish at h
  generalize unauthorizedBody = ub at h
  generalize badRequestBody = bb at h
  repeat' split at h
  all_goals first
    | (cases h <;> decide)
    | (cases hq : parseUint64 r.retryStr <;> rw [hq] at h <;> simp only [] at h <;> cases h <;> decide)

theorem publish_refused_noop' (st : HubSt) (r : PubReq) (h : (st.publish M tokP r).2.status ≠ 200) :
    (st.publish M tokP r).1 = st := by
  cases hp : Mercure.publish st.cfg M tokP r with
  | refused s b => simp only [HubSt.publish, hp]
  | accepted u =>
    simp only [HubSt.publish, hp] at h ⊢
    rcases dispatch_spec M st u with ⟨_, h2⟩ | ⟨_, u', s', uu', db', _, _, _, h2⟩
    · simp only [h2]
    · simp only [h2] at h
      exact absurd rfl h

theorem closed_publish_noop' (st : HubSt) (hc : st.closed = true) (r : PubReq) :
    (st.publish M tokP r).1 = st ∧ (st.publish M tokP r).2.status ≠ 200 := by
  cases hp : Mercure.publish st.cfg M tokP r with
  | refused s b =>
    simp only [HubSt.publish, hp]
    exact ⟨trivial, publish_refused_status M tokP _ _ _ _ hp⟩
  | accepted u =>
    simp only [HubSt.publish, hp]
    rcases dispatch_spec M st u with ⟨_, h2⟩ | ⟨h1, _⟩
    · simp only [h2]
      exact ⟨trivial, by decide⟩
    · rw [hc] at h1; cases h1

theorem connect_refused_noop' (st : HubSt) (label : Nat) (r : SubReq)
    (h : (st.connect M tokS label r).2.status ≠ 200) :
    let st' := (st.connect M tokS label r).1
    st'.conns = st.conns ∧ st'.index = st.index ∧ st'.metrics = st.metrics ∧ st'.okPubs = st.okPubs ∧
    st'.openStreams = st.openStreams ∧ st'.db = st.db := by
  intro st'
  cases hd : subscribeDecision st.cfg tokS r with
  | refused s b =>
    have he := connect_refused (M := M) tokS st label r s b hd
    simp only [st', he]
    exact ⟨trivial, trivial, trivial, trivial, trivial, trivial⟩
  | accepted c priv leid =>
    obtain ⟨c0, h0, hcase⟩ := connect_accepted (M := M) tokS st label r c priv leid hd
    rcases hcase with ⟨hc, he⟩ | ⟨hc, st2, hst2, he⟩
    · have e1 : ∀ a, HubSt.subscriptionEvents M { st with uuid := st.uuid + 1 } c0 a = { st with uuid := st.uuid + 1 } :=
        fun a => subEvents_of_closed _ _ _ hc
      rw [e1 true, e1 false] at he
      simp only [st', he]
      exact ⟨trivial, trivial, trivial, trivial, trivial, trivial⟩
    · rw [he] at h
      exact absurd rfl h

theorem closed_connect_rejected' (st : HubSt) (hc : st.closed = true) (label : Nat) (r : SubReq) :
    let res := st.connect M tokS label r
    res.2.status ≠ 200 ∧ res.1.conns = st.conns ∧ res.1.index = st.index ∧ res.1.db = st.db ∧
    res.1.accepted = st.accepted ∧ res.1.closed = true := by
  intro res
  cases hd : subscribeDecision st.cfg tokS r with
  | refused s b =>
    have he := connect_refused (M := M) tokS st label r s b hd
    simp only [res, he]
    exact ⟨subscribeDecision_status tokS _ _ _ _ hd, trivial, trivial, trivial, trivial, hc⟩
  | accepted c priv leid =>
    obtain ⟨c0, h0, hcase⟩ := connect_accepted (M := M) tokS st label r c priv leid hd
    rcases hcase with ⟨_, he⟩ | ⟨hc', _⟩
    · have e1 : ∀ a, HubSt.subscriptionEvents M { st with uuid := st.uuid + 1 } c0 a = { st with uuid := st.uuid + 1 } :=
        fun a => subEvents_of_closed _ _ _ hc
      rw [e1 true, e1 false] at he
      simp only [res, he]
      exact ⟨by decide, trivial, trivial, trivial, trivial, hc⟩
    · rw [hc] at hc'; cases hc'

/-! ### C15 -/

theorem presCore_closedOut (I : List Nat) :
    PresCore M (fun st => ∀ c ∈ st.conns, c.label ∈ I → c.closedOut = true) where
  dispatch st u h := by
    rcases dispatch_spec M st u with ⟨_, h2⟩ | ⟨_, u', s', uu', db', _, _, _, h2⟩ <;> rw [h2]
    · exact h
    · intro c hc
      rcases List.mem_map.1 hc with ⟨c0, h0, rfl⟩
      split
      · intro hl
        rw [Conn.enqueue_label] at hl
        exact Conn.enqueue_closedOut _ _ _ (h c0 h0 hl)
      · exact h c0 h0
  events st ev h := h
  pump st h := by
    intro c hc
    rcases List.mem_map.1 hc with ⟨c0, h0, rfl⟩
    rw [c0.pump_static.1, c0.pump_static.2.2]
    exact h c0 h0
  shut st l c b' _ _ h := by
    intro c hc
    unfold HubSt.decr HubSt.mark updConn at hc
    rcases List.mem_map.1 hc with ⟨c0, h0, rfl⟩
    split
    · intro _; rfl
    · exact h c0 h0

theorem close_ends_registered' (st : HubSt) (ho : st.closed = false) :
    ∀ c ∈ (st.close M).conns, c.label ∈ st.index → c.closedOut = true := by
  unfold HubSt.close
  simp only [ho, Bool.false_eq_true, if_false]
  apply (presCore_closedOut M st.index).settle
  intro c hc
  rcases List.mem_map.1 hc with ⟨c0, h0, rfl⟩
  split
  · intro _; rfl
  · rename_i hn
    intro hl
    exact absurd (List.contains_iff_mem.2 hl) hn

theorem close_idempotent' (st : HubSt) : (st.close M).close M = st.close M := by
  have h := close_closed' (M := M) st
  generalize st.close M = s at h
  unfold HubSt.close
  simp only [h, if_true]

theorem presCore_frozen (d : List (Nat × Update)) (s : Nat) (k : Kind) :
    PresCore M (fun st => st.closed = true ∧ st.db = d ∧ st.seq = s ∧ st.kind = k) where
  dispatch st u h := by
    rcases dispatch_spec M st u with ⟨_, h2⟩ | ⟨h1, _⟩
    · rw [h2]; exact h
    · rw [h.1] at h1; cases h1
  events st ev h := h
  pump st h := h
  shut st l c b' _ _ h := h

theorem close_frame (st : HubSt) :
    (st.close M).db = st.db ∧ (st.close M).seq = st.seq ∧ (st.close M).kind = st.kind := by
  unfold HubSt.close
  split
  · exact ⟨rfl, rfl, rfl⟩
  · refine ((presCore_frozen M st.db st.seq st.kind).settle _ _ ?_).2
    exact ⟨rfl, rfl, rfl, rfl⟩

theorem restart_keeps_history' (st : HubSt) (hk : st.kind = .bolt) :
    (st.restart M).db = st.db ∧ (st.restart M).seq = st.seq ∧ (st.restart M).closed = false ∧
    (st.restart M).lastEventID = (match st.db.getLast? with | some e => e.2.id | none => earliest) := by
  obtain ⟨h1, h2, h3⟩ := close_frame M st
  unfold HubSt.restart
  simp only [h3, hk, h1, h2]
  refine ⟨trivial, trivial, trivial, ?_⟩
  cases st.db.getLast? <;> rfl
end Single

/-! ## The statements used by Props/C01, C15, C20 -/

variable (M : Str → Str → Bool) (tokP tokS : Str → Option Claims)
variable (cfg : HubCfg) (kind : Kind) (size cap : Nat)

theorem matchTopics_private_auth (c_sels c_allowed : List Str) (u : Update)
    (h : matchTopics M c_sels c_allowed u.topics u.priv = true) (hp : u.priv = true) :
    ∃ t ∈ u.topics, ∃ x ∈ c_allowed, M t x = true := by
  rw [matchTopics_eq, hp] at h
  simp only [Bool.not_true, Bool.false_or, Bool.and_eq_true, List.any_eq_true] at h
  exact h.2

theorem reach_enq_allowed (ops : List HubOp) :
    ∀ c ∈ (HubSt.reach M tokP tokS cfg kind size cap ops).conns, ∀ u ∈ c.enq,
      matchTopics M c.sels c.allowed u.topics u.priv = true := by
  intro c hc u hu
  exact (reach_ok cfg kind size cap ops c hc).enq u hu

theorem reach_written_enq (ops : List HubOp) :
    ∀ c ∈ (HubSt.reach M tokP tokS cfg kind size cap ops).conns,
      ∀ u, (u ∈ c.written ∨ u ∈ c.out ∨ c.inflight = some u) → u ∈ c.enq := by
  intro c hc u hu
  exact (reach_ok (tokS := tokS) cfg kind size cap ops c hc).wr u hu

theorem reach_allowed_token (ops : List HubOp) :
    ∀ c ∈ (HubSt.reach M tokP tokS cfg kind size cap ops).conns,
      c.allowed = [] ∨ ∃ s cl, tokS s = some cl ∧ c.allowed = cl.mercure.subscribe.getD [] := by
  intro c hc
  exact (reach_ok (M := M) cfg kind size cap ops c hc).tok

/-! ### C20 -/

theorem reach_metrics (ops : List HubOp) :
    let st := HubSt.reach M tokP tokS cfg kind size cap ops
    st.metrics.gauge = st.openStreams ∧ st.metrics.total = st.conns.length ∧ st.metrics.updates = st.okPubs := by
  intro st
  exact run_metrics ops (HubSt.init cfg kind size cap) ⟨rfl, rfl, rfl⟩

theorem reach_open_streams (ops : List HubOp) (hf : FreshLabels ops) :
    let st := HubSt.reach M tokP tokS cfg kind size cap ops
    st.openStreams = ((st.conns.filter (fun c => !c.done)).length : Int) := by
  intro st
  exact (run_count ops (HubSt.init cfg kind size cap) ⟨List.nodup_nil, rfl⟩ hf
    (fun l _ h => by cases h)).2

theorem publish_refused_noop (st : HubSt) (r : PubReq) (h : (st.publish M tokP r).2.status ≠ 200) :
    (st.publish M tokP r).1 = st := by
  exact publish_refused_noop' M tokP st r h

theorem connect_refused_noop (st : HubSt) (label : Nat) (r : SubReq)
    (h : (st.connect M tokS label r).2.status ≠ 200) :
    let st' := (st.connect M tokS label r).1
    st'.conns = st.conns ∧ st'.index = st.index ∧ st'.metrics = st.metrics ∧ st'.okPubs = st.okPubs ∧
    st'.openStreams = st.openStreams ∧ st'.db = st.db := by
  exact connect_refused_noop' M tokS st label r h

/-! ### C15 -/

theorem close_ends_registered (st : HubSt) (ho : st.closed = false) :
    ∀ c ∈ (st.close M).conns, c.label ∈ st.index → c.closedOut = true := by
  exact close_ends_registered' M st ho

theorem close_closed (st : HubSt) : (st.close M).closed = true := by
  exact close_closed' st

theorem close_idempotent (st : HubSt) : (st.close M).close M = st.close M := by
  exact close_idempotent' M st

theorem closed_publish_noop (st : HubSt) (hc : st.closed = true) (r : PubReq) :
    (st.publish M tokP r).1 = st ∧ (st.publish M tokP r).2.status ≠ 200 := by
  exact closed_publish_noop' M tokP st hc r

theorem closed_connect_rejected (st : HubSt) (hc : st.closed = true) (label : Nat) (r : SubReq) :
    let res := st.connect M tokS label r
    res.2.status ≠ 200 ∧ res.1.conns = st.conns ∧ res.1.index = st.index ∧ res.1.db = st.db ∧
    res.1.accepted = st.accepted ∧ res.1.closed = true := by
  exact closed_connect_rejected' M tokS st hc label r

theorem restart_keeps_history (st : HubSt) (hk : st.kind = .bolt) :
    (st.restart M).db = st.db ∧ (st.restart M).seq = st.seq ∧ (st.restart M).closed = false ∧
    (st.restart M).lastEventID = (match st.db.getLast? with | some e => e.2.id | none => earliest) := by
  exact restart_keeps_history' M st hk

/-- Bolt without retention: the stored history is exactly the accepted updates, in order. -/
theorem reach_db_accepted (ops : List HubOp) :
    let st := HubSt.reach M tokP tokS cfg .bolt 0 cap ops
    st.db.map (·.2) = st.accepted := by
  intro st
  exact (run_db ops (HubSt.init cfg .bolt 0 cap) ⟨rfl, rfl, rfl⟩).1

end Mercure
