import Mercure.Model.Basic
/-
  Mercure.Model.Selector — topicselector.go + topicselectorlru.go

  `TemplateOracle` stands for yosida95/uritemplate + Go regexp (trusted base, DESIGN §7):
    valid sel      : uritemplate.New(sel) succeeds
    expands sel t  : tpl.Regexp().MatchString(t)
  The store below is the *exact* executable model of the sharded LRU (FNV-1a-32 sharding, per-shard
  LRU with hashicorp/golang-lru semantics), including the "t_" entries that hold compiled regexps
  and compete for the same slots.
-/
namespace Mercure

structure TemplateOracle where
  valid   : Str → Bool
  expands : Str → Str → Bool

/-- What `match` computes when nothing is cached (topicselector.go:33-46 with getRegexp inlined). -/
def matchUncached (T : TemplateOracle) (topic sel : Str) : Bool :=
  containsChar sel '{' && T.valid sel && T.expands sel topic

/-- The protocol's relation (spec §Topic Selectors) — the reference every answer is compared with. -/
def matchSpec (T : TemplateOracle) (topic sel : Str) : Bool :=
  sel == ['*'] || topic == sel || matchUncached T topic sel

/-! ### cache keys — the key expression is *regenerated* from the source (Generated/Facts.lean) -/

inductive Seg where
  | lit (s : Str)
  | sel
  | topic
  | lenSel      -- strconv.Itoa(len(topicSelector))  (byte length)
  | lenTopic
  deriving DecidableEq, Repr

def utf8Len (s : Str) : Nat := (s.map Char.utf8Size).sum

def natDigits (n : Nat) : Str := Nat.toDigits 10 n

def Seg.render (sel topic : Str) : Seg → Str
  | .lit s => s
  | .sel => sel
  | .topic => topic
  | .lenSel => natDigits (utf8Len sel)
  | .lenTopic => natDigits (utf8Len topic)

def mkKey (segs : List Seg) (sel topic : Str) : Str :=
  (segs.map (Seg.render sel topic)).flatten

/-! ### exact LRU model -/

inductive CVal where
  | b (sel : Str) (v : Bool)   -- matchCacheEntry{topicSelector, match}
  | re (sel : Str)             -- the regexp compiled from `sel`
  deriving DecidableEq, Repr

/-- One shard: most recently used first. -/
abbrev Shard := List (Str × CVal)

def Shard.get (s : Shard) (k : Str) : Option CVal × Shard :=
  match s.find? (·.1 == k) with
  | some e => (some e.2, e :: s.filter (·.1 != k))
  | none => (none, s)

def Shard.add (cap : Nat) (s : Shard) (k : Str) (v : CVal) : Shard :=
  let s' := (k, v) :: s.filter (·.1 != k)
  if s'.length > cap then s'.dropLast else s'

def fnv1a32 (bs : List UInt8) : UInt32 :=
  bs.foldl (fun h b => (h ^^^ b.toUInt32) * 16777619) 2166136261

def shardIndex (nShards : Nat) (k : Str) : Nat :=
  (fnv1a32 (utf8Bytes k)).toNat % nShards

structure Store where
  enabled : Bool           -- tss.cache != nil
  cap     : Nat            -- entries per shard
  shards  : List Shard     -- length = shard count (≥ 1 when enabled)
  deriving Repr

def Store.new (maxEntriesPerShard shardCount : Nat) : Store :=
  if maxEntriesPerShard == 0 then { enabled := false, cap := 0, shards := [] }
  else
    let n := if shardCount == 0 then 256 else shardCount
    { enabled := true, cap := maxEntriesPerShard, shards := List.replicate n [] }

def Store.get (st : Store) (k : Str) : Option CVal × Store :=
  let i := shardIndex st.shards.length k
  match st.shards[i]? with
  | none => (none, st)
  | some sh =>
    let (r, sh') := sh.get k
    (r, { st with shards := st.shards.set i sh' })

def Store.set (st : Store) (k : Str) (v : CVal) : Store :=
  let i := shardIndex st.shards.length k
  match st.shards[i]? with
  | none => st
  | some sh => { st with shards := st.shards.set i (sh.add st.cap k v) }

def tKey (sel : Str) : Str := ['t', '_'] ++ sel

/-- getRegexp (topicselector.go:51-79): `some sel'` = the regexp compiled from `sel'`. -/
def Store.getRegexp (T : TemplateOracle) (st : Store) (sel : Str) : Option Str × Store :=
  if !containsChar sel '{' then (none, st) else
  if st.enabled then
    match st.get (tKey sel) with
    | (some (.re s'), st1) => (some s', st1)
    | (some (.b _ _), st1) => (none, st1)    -- unreachable by construction (type assertion would panic)
    | (none, st1) =>
      if T.valid sel then (some sel, st1.set (tKey sel) (.re sel)) else (none, st1)
  else
    if T.valid sel then (some sel, st) else (none, st)

/-- The miss path of `match`: compile (or fetch) the regexp, evaluate, store the result. -/
def Store.matchMiss (T : TemplateOracle) (st : Store) (k : Option Str) (topic sel : Str) : Bool × Store :=
  match Store.getRegexp T st sel with
  | (none, st2) => (false, st2)
  | (some s', st2) =>
    let m := T.expands s' topic
    match k with
    | some k => (m, st2.set k (.b sel m))
    | none => (m, st2)

/-- `TopicSelectorStore.match` (topicselector.go). `validated` is a regenerated fact: a cached
    entry is used only if it was stored for the same selector. -/
def Store.match (T : TemplateOracle) (segs : List Seg) (validated : Bool) (st : Store)
    (topic sel : Str) : Bool × Store :=
  if sel == ['*'] || topic == sel then (true, st) else
  if st.enabled then
    let k := mkKey segs sel topic
    match st.get k with
    | (some (.b s v), st1) => if !validated || s == sel then (v, st1) else Store.matchMiss T st1 (some k) topic sel
    | (some (.re _), st1) => Store.matchMiss T st1 (some k) topic sel   -- type assertion fails: treated as a miss
    | (none, st1) => Store.matchMiss T st1 (some k) topic sel
  else Store.matchMiss T st none topic sel

end Mercure
