package main

import (
	"fmt"
	"sort"
	"strings"

	"verifharness/pkg/gen"
	"verifharness/pkg/h"

	"github.com/dunglas/mercure"
)

func init() { register("sublist", "C05", runSubList) }

type sfOp struct {
	Op      string   `json:"op"` // add | remove | match | walk
	Label   int      `json:"label,omitempty"`
	Sels    []string `json:"sels,omitempty"`
	Allowed []string `json:"allowed,omitempty"`
	Topics  []string `json:"topics,omitempty"`
	Private bool     `json:"private,omitempty"`
}

type sfCase struct {
	Cap int    `json:"cap"`
	Ops []sfOp `json:"ops"`
}

func labelsOf(ss []*mercure.LocalSubscriber, lab map[*mercure.LocalSubscriber]int) string {
	var ls []int
	for _, s := range ss {
		ls = append(ls, lab[s])
	}
	sort.Ints(ls)
	var p []string
	for _, l := range ls {
		p = append(p, h.Itoa(l))
	}

	return strings.Join(p, " ")
}

func sortFields(s string) string {
	f := strings.Fields(s)
	sort.Slice(f, func(i, j int) bool {
		if len(f[i]) != len(f[j]) {
			return len(f[i]) < len(f[j])
		}

		return f[i] < f[j]
	})

	return strings.Join(f, " ")
}

func runSfCase(c *h.Ctx, r *h.Report, o *gen.Oracle, cs sfCase) {
	tss, _ := mercure.NewTopicSelectorStoreLRU(mercure.DefaultTopicSelectorStoreLRUMaxEntriesPerShard, mercure.DefaultTopicSelectorStoreLRUShardCount)
	sl := mercure.NewSubscriberList(cs.Cap)
	subs := map[int]*mercure.LocalSubscriber{}
	lab := map[*mercure.LocalSubscriber]int{}
	spec := map[int]sfOp{}

	var sels, topics []string
	for _, op := range cs.Ops {
		sels = append(sels, op.Sels...)
		sels = append(sels, op.Allowed...)
		topics = append(topics, op.Topics...)
	}
	lines := []string{"or.reset"}
	lines = append(lines, o.Lines(dedupe(sels), dedupe(topics))...)
	lines = append(lines, h.Line("sf.new", h.Itoa(cs.Cap)))
	pre := len(lines)
	for _, op := range cs.Ops {
		switch op.Op {
		case "add":
			lines = append(lines, h.Line("sf.add", h.Itoa(op.Label), h.HexList(op.Sels), h.HexList(op.Allowed)))
		case "remove":
			lines = append(lines, h.Line("sf.remove", h.Itoa(op.Label)))
		case "match":
			lines = append(lines, h.Line("sf.match", h.HexList(op.Topics), h.B(op.Private)))
		case "walk":
			lines = append(lines, "sf.walk")
		}
	}
	ans := c.Driver.Ask(lines)[pre:]

	type sig struct{ k string }
	lastAnswer := map[string]string{}
	changed := false
	sigs := map[string]bool{}
	for i, op := range cs.Ops {
		r.Evaluations++
		r.Count("op:" + op.Op)
		impl := "ok"
		switch op.Op {
		case "add":
			s := mercure.NewLocalSubscriber("", zapNop(), tss)
			s.SetTopics(op.Sels, op.Allowed)
			subs[op.Label] = s
			lab[s] = op.Label
			spec[op.Label] = op
			sl.Add(s)
		case "remove":
			if s, ok := subs[op.Label]; ok {
				sl.Remove(s)
				delete(subs, op.Label)
				delete(spec, op.Label)
			}
		case "walk":
			var all []*mercure.LocalSubscriber
			sl.Walk(0, func(s *mercure.LocalSubscriber) bool { all = append(all, s); return true })
			impl = labelsOf(all, lab)
		case "match":
			u := &mercure.Update{Topics: append([]string(nil), op.Topics...), Private: op.Private}
			impl = labelsOf(sl.MatchAny(u), lab)
			// property oracle on the implementation alone: exactly the connected matching subscribers
			var want []int
			for l, sp := range spec {
				subscribed, authorised := false, !op.Private
				for _, t := range op.Topics {
					for _, x := range sp.Sels {
						subscribed = subscribed || o.Spec(t, x)
					}
					for _, x := range sp.Allowed {
						authorised = authorised || o.Spec(t, x)
					}
				}
				if subscribed && authorised {
					want = append(want, l)
				}
			}
			sort.Ints(want)
			var wp []string
			for _, l := range want {
				wp = append(wp, h.Itoa(l))
			}
			if w := strings.Join(wp, " "); w != impl {
				r.Violate(h.Violation{Key: "C05:recipients-differ-from-matching-connected-subscribers",
					What:   fmt.Sprintf("MatchAny(topics=%q private=%v) returned subscribers [%s]; the connected matching subscribers are [%s]", op.Topics, op.Private, impl, w),
					Replay: map[string]any{"family": "sublist", "case": sfCase{Cap: cs.Cap, Ops: cs.Ops[:i+1]}}})
			}
			k := mercure.VerifEncode(op.Topics, op.Private)
			if prev, ok := lastAnswer[k]; ok && prev != impl {
				changed = true
			}
			lastAnswer[k] = impl
			sigs[k] = true
		}
		if sortFields(ans[i]) != impl {
			r.Disagree(h.Disagreement{Class: "C05.SkipFilter." + op.Op, Case: cs, Model: ans[i], Impl: impl, At: i})
		}
	}
	evicting := cs.Cap > 0 && len(sigs) > cs.Cap
	if evicting {
		r.Count("case:signatures>cache")
	}
	if changed {
		r.Count("case:answer-of-a-signature-changed")
	}
	if changed || evicting {
		r.Nontrivial(fmt.Sprint(cs))
	}
	r.Sample(cs)
}

func runEncCases(c *h.Ctx, r *h.Report, n int) {
	atoms := []string{"\x00", "\x01", "a", "b", "", "é", "\x00\x01", "1", "0", "日本", "\x01\x01", "ab", "a\x00"}
	var lines []string
	type ec struct {
		ts []string
		p  bool
	}
	var cases []ec
	for i := 0; i < n; i++ {
		rr := c.Rand.Fork()
		k := 1 + rr.Intn(4)
		var ts []string
		for j := 0; j < k; j++ {
			t := ""
			for m := rr.Intn(4); m > 0; m-- {
				t += h.Pick(rr, atoms)
			}
			ts = append(ts, t)
		}
		cases = append(cases, ec{ts, rr.Bool()})
		lines = append(lines, h.Line("enc", h.HexList(ts), h.B(cases[i].p)))
	}
	ans := c.Driver.Ask(lines)
	var dl []string
	for i, cs := range cases {
		r.Evaluations++
		r.Count("op:encode")
		impl := mercure.VerifEncode(cs.ts, cs.p)
		if h.UnHex(ans[i]) != impl {
			r.Disagree(h.Disagreement{Class: "C05.encode", Case: cs.ts, Model: ans[i], Impl: h.Hex(impl), At: i})
		}
		// oracle on the implementation alone: decode ∘ encode = (sorted topics, private)
		ts, p := mercure.VerifDecode(impl)
		want := append([]string(nil), cs.ts...)
		sort.Strings(want)
		if p != cs.p || strings.Join(ts, "\x02") != strings.Join(want, "\x02") {
			r.Violate(h.Violation{Key: "C05:decode-encode-roundtrip",
				What:   fmt.Sprintf("decode(encode(%q,%v)) = (%q,%v)", cs.ts, cs.p, ts, p),
				Replay: map[string]any{"family": "sublist", "enc": cs.ts, "private": cs.p}})
		}
		dl = append(dl, h.Line("dec", h.Hex(impl)))
		if len(cs.ts) > 1 && strings.ContainsAny(strings.Join(cs.ts, ""), "\x00\x01") {
			r.Nontrivial("enc" + fmt.Sprint(cs))
		}
	}
	ans = c.Driver.Ask(dl)
	for i, cs := range cases {
		impl := mercure.VerifEncode(cs.ts, cs.p)
		ts, p := mercure.VerifDecode(impl)
		if ans[i] != h.HexList(ts)+" "+h.B(p) {
			r.Disagree(h.Disagreement{Class: "C05.decode", Case: cs.ts, Model: ans[i], Impl: h.HexList(ts) + " " + h.B(p), At: i})
		}
	}
}

func runSubList(c *h.Ctx, r *h.Report) {
	r.Rule = "add/remove/dispatch/walk histories (<= 60 ops, plus lists of 1100-2200 subscribers walked and matched) on NewSubscriberList(size in {1,2,8,0=default}); selectors and topics from a per-case pool (templates with expansions, literals with U+0000/U+0001, empty strings, duplicates, multi-byte text, '*'), 1-3 topics per update in random order, private on/off with claim quadrants. Non-trivial = history in which some update signature is re-dispatched with a different recipient set (an add/remove changed its answer) or in which there are more distinct signatures than cache slots (eviction); plus encode/decode cases with >1 topic containing the delimiter/escape scalars. Distinct by content."
	o := gen.NewOracle()
	if c.Replay != "" {
		var rp struct {
			Case sfCase `json:"case"`
		}
		readReplay(c.Replay, &rp)
		runSfCase(c, r, o, rp.Case)

		return
	}
	runEncCases(c, r, c.Scale(1000, 20000))
	// a list larger than any internal chunk or page: 1100-2200 subscribers, some removed, walked and matched
	for k := 0; k < c.Scale(1, 4); k++ {
		rr := c.Rand.Fork()
		big := sfCase{Cap: 8}
		nb := 1100 + rr.Intn(1100)
		for i := 0; i < nb; i++ {
			big.Ops = append(big.Ops, sfOp{Op: "add", Label: i, Sels: []string{h.Pick(rr, []string{"t", "u", "*"})}})
		}
		for i := 5; i < nb; i += 211 {
			big.Ops = append(big.Ops, sfOp{Op: "remove", Label: i})
		}
		big.Ops = append(big.Ops, sfOp{Op: "walk"}, sfOp{Op: "match", Topics: []string{"t"}}, sfOp{Op: "match", Topics: []string{"u", "t"}}, sfOp{Op: "walk"})
		runSfCase(c, r, o, big)
		r.Count("case:more-than-a-thousand-subscribers")
	}
	n := c.Scale(600, 10000)
	for i := 0; i < n; i++ {
		rr := c.Rand.Fork()
		// pool
		var sels, topics []string
		for k := 0; k < 3; k++ {
			t := gen.Template(rr)
			sels = append(sels, t)
			if o.Valid(t) {
				topics = append(topics, gen.Expand(rr, tplOf(t)))
			}
		}
		for k := 0; k < 3; k++ {
			l := gen.Literal(rr, true)
			sels = append(sels, l)
			topics = append(topics, l)
		}
		sels = append(sels, "*", "")
		topics = append(topics, "", "\x00", "\x01", gen.Literal(rr, true))
		cs := sfCase{Cap: h.Pick(rr, []int{1, 2, 8, 0})}
		next := 0
		var live []int
		nops := 10 + rr.Intn(51)
		for k := 0; k < nops; k++ {
			switch x := rr.Intn(10); {
			case x < 3 || len(live) == 0:
				op := sfOp{Op: "add", Label: next}
				for m := 1 + rr.Intn(2); m > 0; m-- {
					op.Sels = append(op.Sels, h.Pick(rr, sels))
				}
				for m := rr.Intn(3); m > 0; m-- {
					op.Allowed = append(op.Allowed, h.Pick(rr, sels))
				}
				live = append(live, next)
				next++
				cs.Ops = append(cs.Ops, op)
			case x < 5:
				j := rr.Intn(len(live))
				cs.Ops = append(cs.Ops, sfOp{Op: "remove", Label: live[j]})
				live = append(live[:j], live[j+1:]...)
			case x < 9:
				op := sfOp{Op: "match", Private: rr.Chance(1, 3)}
				for m := 1 + rr.Intn(3); m > 0; m-- {
					op.Topics = append(op.Topics, h.Pick(rr, topics))
				}
				cs.Ops = append(cs.Ops, op)
			default:
				cs.Ops = append(cs.Ops, sfOp{Op: "walk"})
			}
		}
		runSfCase(c, r, o, cs)
	}
}
