import Mercure.Model.Hub
import Mercure.Lemmas.SubList
/-
  Lemmas about subscription events and the subscription API over hub histories (C17, C18).
-/
namespace Mercure

variable (M : Str → Str → Bool) (tokP tokS : Str → Option Claims)
variable (cfg : HubCfg) (kind : Kind) (size cap : Nat)

/-- Selectors announced for connection `label` with the given `active` flag, in order. -/
def evs (st : HubSt) (label : Nat) (active : Bool) : List Str :=
  (st.events.filter (fun e => e.1 == label && e.2.2 == active)).map (·.2.1)

/-! ### abstraction of the hub state -/

structure CoreC where
  label : Nat
  sid : Str
  sels : List Str
  epoch : Nat
  done : Bool
  shutdownOpen : Bool

def Conn.core (c : Conn) : CoreC :=
  { label := c.label, sid := c.sid, sels := c.sels, epoch := c.epoch, done := c.done,
    shutdownOpen := c.shutdownOpen }

structure Abs where
  cfg : HubCfg
  conns : List CoreC
  index : List Nat
  closed : Bool
  epoch : Nat
  uuid : Nat
  events : List (Nat × Str × Bool)
  failed : List (Nat × List Str × Bool)

def HubSt.abs (st : HubSt) : Abs :=
  { cfg := st.cfg, conns := st.conns.map Conn.core, index := st.index, closed := st.closed,
    epoch := st.epoch, uuid := st.uuid, events := st.events, failed := st.failed }

theorem map_core_of_preserving {f : Conn → Conn} (hf : ∀ c, (f c).core = c.core) (conns : List Conn) :
    (conns.map f).map Conn.core = conns.map Conn.core := by
  rw [List.map_map]; apply List.map_congr_left; intro c _; exact hf c

theorem updConn_core_of_preserving {f : Conn → Conn} (hf : ∀ c, (f c).core = c.core) (conns : List Conn)
    (l : Nat) : (updConn conns l f).map Conn.core = conns.map Conn.core := by
  unfold updConn
  apply map_core_of_preserving
  intro c; split
  · exact hf c
  · rfl

theorem Conn.enqueue_core (cap : Nat) (c : Conn) (u : Update) : (c.enqueue cap u).1.core = c.core := by
  unfold Conn.enqueue
  split
  · rfl
  · split <;> rfl

theorem Conn.pump_core (c : Conn) : c.pump.core = c.core := by
  unfold Conn.pump
  repeat' (first | split | (intro _))
  all_goals (try simp only []); (repeat' split)
  all_goals rfl

theorem Conn.replay_core (M : Str → Str → Bool) (cap : Nat) (ups : List Update) :
    ∀ c : Conn, (c.replay M cap ups).core = c.core := by
  induction ups with
  | nil => intro c; rfl
  | cons u us ih =>
    intro c
    unfold Conn.replay
    split
    · have h := Conn.enqueue_core cap c u
      split
      · rename_i c' heq
        rw [heq] at h
        rw [ih c']; exact h
      · rename_i c' heq
        rw [heq] at h
        exact h
    · exact ih c

/-! ### dispatch -/

theorem abs_eq_of (st st' : HubSt) (h1 : st'.cfg = st.cfg)
    (h2 : st'.conns.map Conn.core = st.conns.map Conn.core) (h3 : st'.index = st.index)
    (h4 : st'.closed = st.closed) (h5 : st'.epoch = st.epoch) (h6 : st'.events = st.events)
    (h7 : st'.failed = st.failed) :
    st'.abs = { st.abs with uuid := st'.uuid } := by
  unfold HubSt.abs
  simp only [h1, h2, h3, h4, h5, h6, h7]

theorem dispatch_map_core (M : Str → Str → Bool) (idx : List Nat) (cap : Nat) (u : Update) (conns : List Conn) :
    (conns.map (fun c => if idx.contains c.label && c.matches M u then (c.enqueue cap u).1 else c)).map Conn.core
      = conns.map Conn.core := by
  apply map_core_of_preserving
  intro c; split
  · exact Conn.enqueue_core _ _ _
  · rfl

theorem HubSt.dispatch_abs (M : Str → Str → Bool) (st : HubSt) (u : Update) :
    (st.dispatch M u).1.abs = { st.abs with uuid := (st.dispatch M u).1.uuid } ∧
    st.uuid ≤ (st.dispatch M u).1.uuid ∧
    ((st.dispatch M u).2 = none ↔ st.closed = true) := by
  unfold HubSt.dispatch
  by_cases hc : st.closed = true
  · simp only [hc, ↓reduceIte]
    exact ⟨rfl, Nat.le_refl _, by simp⟩
  · rw [if_neg hc]
    by_cases hid : (u.id == []) = true <;> simp only [hid, Bool.false_eq_true, ↓reduceIte] <;>
      cases hk : st.kind <;> simp only [] <;>
      exact ⟨abs_eq_of _ _ rfl (dispatch_map_core _ _ _ _ _) rfl rfl rfl rfl rfl, by simp, by simpa using hc⟩

/-! ### subscription events -/

theorem HubSt.dispatch_closed_eq (M : Str → Str → Bool) (st : HubSt) (u : Update) (h : st.closed = true) :
    st.dispatch M u = (st, none) := by
  unfold HubSt.dispatch; rw [if_pos h]

theorem subDocs_topics (cfg : HubCfg) (M : Str → Str → Bool) (c : Conn) (a : Bool) :
    (subDocsOf cfg M c [] a).map (·.topic) = c.sels := by
  simp [subDocsOf, getSubscriptions, List.map_map, Function.comp_def]

def subEvStep (M : Str → Str → Bool) (l : Nat) (a : Bool) (st : HubSt) (s : Subscription) : HubSt :=
  match st.dispatch M (subscriptionUpdate s) with
  | (st', some _) => { st' with events := st'.events ++ [(l, s.topic, a)] }
  | (st', none) => st'

theorem subscriptionEvents_eq_he (M : Str → Str → Bool) (st : HubSt) (c : Conn) (a : Bool) :
    st.subscriptionEvents M c a =
      if !st.cfg.subscriptions then st else (subDocsOf st.cfg M c [] a).foldl (subEvStep M c.label a) st := rfl

theorem subEvStep_abs (M : Str → Str → Bool) (l : Nat) (a : Bool) (st : HubSt) (s : Subscription) :
    (subEvStep M l a st s).abs =
      { st.abs with uuid := (subEvStep M l a st s).uuid,
                    events := st.events ++ (if st.closed then [] else [(l, s.topic, a)]) } ∧
    st.uuid ≤ (subEvStep M l a st s).uuid := by
  unfold subEvStep
  by_cases hc : st.closed = true
  · rw [HubSt.dispatch_closed_eq M st _ hc]
    simp [hc, HubSt.abs]
  · obtain ⟨h1, h2, h3⟩ := HubSt.dispatch_abs M st (subscriptionUpdate s)
    cases hd : st.dispatch M (subscriptionUpdate s) with
    | mk st1 r =>
      rw [hd] at h1 h2 h3
      simp only at h1 h2 h3
      cases r with
      | none => exact absurd (h3.1 rfl) hc
      | some id =>
        simp only []
        refine ⟨?_, h2⟩
        have e1 : ({ st1 with events := st1.events ++ [(l, s.topic, a)] } : HubSt).abs =
            { st1.abs with events := st1.events ++ [(l, s.topic, a)] } := rfl
        have hev : st1.events = st.events := congrArg Abs.events h1
        rw [e1, h1, hev]
        simp [hc]

theorem subEvents_fold_abs (M : Str → Str → Bool) (l : Nat) (a : Bool) (docs : List Subscription) :
    ∀ st : HubSt,
    (docs.foldl (subEvStep M l a) st).abs =
      { st.abs with uuid := (docs.foldl (subEvStep M l a) st).uuid,
                    events := st.events ++ (if st.closed then [] else docs.map (fun s => (l, s.topic, a))) } ∧
    st.uuid ≤ (docs.foldl (subEvStep M l a) st).uuid := by
  induction docs with
  | nil => intro st; simp [HubSt.abs]
  | cons s ss ih =>
    intro st
    simp only [List.foldl_cons]
    obtain ⟨h1, h2⟩ := subEvStep_abs M l a st s
    obtain ⟨i1, i2⟩ := ih (subEvStep M l a st s)
    refine ⟨?_, Nat.le_trans h2 i2⟩
    rw [i1, h1]
    have hcl : (subEvStep M l a st s).closed = st.closed := congrArg Abs.closed h1
    have hev : (subEvStep M l a st s).events = st.events ++ (if st.closed then [] else [(l, s.topic, a)]) :=
      congrArg Abs.events h1
    rw [hcl, hev]
    cases st.closed <;> simp

theorem HubSt.subscriptionEvents_abs (M : Str → Str → Bool) (st : HubSt) (c : Conn) (a : Bool) :
    (st.subscriptionEvents M c a).abs =
      { st.abs with uuid := (st.subscriptionEvents M c a).uuid,
                    events := st.events ++ (if st.cfg.subscriptions && !st.closed
                                            then c.sels.map (fun s => (c.label, s, a)) else []) } ∧
    st.uuid ≤ (st.subscriptionEvents M c a).uuid := by
  rw [subscriptionEvents_eq_he]
  by_cases hs : st.cfg.subscriptions = true
  · simp only [hs, Bool.not_true, Bool.false_eq_true, ↓reduceIte, Bool.true_and]
    obtain ⟨h1, h2⟩ := subEvents_fold_abs M c.label a (subDocsOf st.cfg M c [] a) st
    refine ⟨?_, h2⟩
    rw [h1]
    have : (subDocsOf st.cfg M c [] a).map (fun s => (c.label, s.topic, a)) =
        c.sels.map (fun s => (c.label, s, a)) := by
      rw [← subDocs_topics st.cfg M c a, List.map_map]; rfl
    rw [this]
    cases st.closed <;> rfl
  · simp only [hs, Bool.not_false, ↓reduceIte, Bool.false_and, Bool.false_eq_true, List.append_nil]
    exact ⟨rfl, Nat.le_refl _⟩

/-! ### abstract operations -/

def CoreC.shut (l : Nat) (o : Bool) (c : CoreC) : CoreC :=
  if c.label == l then { c with done := true, shutdownOpen := o } else c

def Abs.shutdown (a : Abs) (l n : Nat) : Abs :=
  match a.conns.find? (·.label == l) with
  | none => a
  | some c =>
    if c.done then a else
    { a with conns := a.conns.map (CoreC.shut l (!a.closed && c.epoch == a.epoch)),
             index := if (!a.closed && c.epoch == a.epoch) then a.index.filter (· != l) else a.index,
             events := a.events ++ (if a.cfg.subscriptions && (!a.closed && c.epoch == a.epoch)
                                    then c.sels.map (fun s => (l, s, false)) else []),
             uuid := n }

def Abs.connect (a : Abs) (c : CoreC) (n : Nat) : Abs :=
  { a with conns := a.conns ++ [c], index := a.index ++ [c.label],
           events := a.events ++ (if a.cfg.subscriptions then c.sels.map (fun s => (c.label, s, true)) else []),
           uuid := n }

/-- A registration that fails half-way: both rounds of events (when the hub is open), the ghost entry. -/
def Abs.fail (a : Abs) (l : Nat) (sels : List Str) (n : Nat) : Abs :=
  { a with events := a.events ++ (if a.cfg.subscriptions && !a.closed then sels.map (fun s => (l, s, true)) else [])
                       ++ (if a.cfg.subscriptions && !a.closed then sels.map (fun s => (l, s, false)) else []),
           failed := a.failed ++ [(l, sels, !a.closed)],
           uuid := n }

/-- `Gen L a b`: `b` is obtained from `a` by abstract steps, using the labels `L` in order
    (for connections and for registrations that fail half-way). -/
inductive Gen : List Nat → Abs → Abs → Prop
  | refl (a : Abs) : Gen [] a a
  | bump {L : List Nat} {a b : Abs} (n : Nat) (h : a.uuid ≤ n) : Gen L { a with uuid := n } b → Gen L a b
  | shutdown {L : List Nat} {a b : Abs} (l n : Nat) (h : a.uuid ≤ n) : Gen L (a.shutdown l n) b → Gen L a b
  | connect {L : List Nat} {a b : Abs} (c : CoreC) (n : Nat) (hc : a.closed = false)
      (hs : c.sid = uuidOf a.uuid) (hn : a.uuid < n) (he : c.epoch = a.epoch) (hd : c.done = false)
      (ho : c.shutdownOpen = false) : Gen L (a.connect c n) b → Gen (c.label :: L) a b
  | fail {L : List Nat} {a b : Abs} (l : Nat) (sels : List Str) (n : Nat) (h : a.uuid ≤ n) :
      Gen L (a.fail l sels n) b → Gen (l :: L) a b
  | close {L : List Nat} {a b : Abs} : Gen L { a with closed := true } b → Gen L a b
  | restart {L : List Nat} {a b : Abs} :
      Gen L { a with closed := false, index := [], epoch := a.epoch + 1 } b → Gen L a b

theorem Gen.trans {L1 L2 : List Nat} {a b c : Abs} (h1 : Gen L1 a b) (h2 : Gen L2 b c) : Gen (L1 ++ L2) a c := by
  induction h1 with
  | refl a => exact h2
  | bump n h _ ih => exact Gen.bump n h (ih h2)
  | shutdown l n h _ ih => exact Gen.shutdown l n h (ih h2)
  | connect c n hc hs hn he hd ho _ ih => exact Gen.connect c n hc hs hn he hd ho (ih h2)
  | fail l sels n h _ ih => exact Gen.fail l sels n h (ih h2)
  | close _ ih => exact Gen.close (ih h2)
  | restart _ ih => exact Gen.restart (ih h2)

theorem Gen.trans' {a b c : Abs} (h1 : Gen [] a b) (h2 : Gen [] b c) : Gen [] a c := Gen.trans h1 h2

theorem Gen.of_eq {a b : Abs} (h : b = a) : Gen [] a b := h ▸ Gen.refl a

/-! ### shutdown -/

theorem find_core (conns : List Conn) (l : Nat) :
    (conns.map Conn.core).find? (·.label == l) = (getConn conns l).map Conn.core := by
  unfold getConn; rw [List.find?_map]; rfl

theorem updConn_shut (conns : List Conn) (l : Nat) (o : Bool) :
    (updConn conns l (fun c => { c with closedOut := true, exited := true, done := true, shutdownOpen := o })).map
      Conn.core = (conns.map Conn.core).map (CoreC.shut l o) := by
  unfold updConn
  rw [List.map_map, List.map_map]
  apply List.map_congr_left
  intro c _
  simp only [Function.comp]
  unfold CoreC.shut
  have : c.core.label = c.label := rfl
  rw [this]
  by_cases h : (c.label == l) = true
  · rw [if_pos h, if_pos h]; rfl
  · rw [if_neg h, if_neg h]

theorem abs_metrics (s : HubSt) (m : Metrics) (o : Int) :
    ({ s with metrics := m, openStreams := o } : HubSt).abs = s.abs := rfl

theorem HubSt.shutdown_abs (M : Str → Str → Bool) (st : HubSt) (l : Nat) :
    (st.shutdown M l).abs = st.abs.shutdown l (st.shutdown M l).uuid ∧ st.uuid ≤ (st.shutdown M l).uuid := by
  unfold HubSt.shutdown Abs.shutdown
  have hf : st.abs.conns.find? (·.label == l) = (getConn st.conns l).map Conn.core := find_core st.conns l
  rw [hf]
  cases hg : getConn st.conns l with
  | none => exact ⟨rfl, Nat.le_refl _⟩
  | some c =>
    have hl : c.label = l := by
      have := List.find?_some hg
      simpa using this
    simp only [Option.map_some]
    by_cases hd : c.done = true
    · have : c.core.done = true := hd
      rw [if_pos hd, if_pos this]
      exact ⟨rfl, Nat.le_refl _⟩
    · have hd' : ¬ c.core.done = true := hd
      rw [if_neg hd, if_neg hd']
      have he : c.core.epoch = c.epoch := rfl
      have hsels : c.core.sels = c.sels := rfl
      cases ho : (!st.closed && c.epoch == st.epoch)
      · simp only [Bool.false_eq_true, ↓reduceIte]
        refine ⟨?_, Nat.le_refl _⟩
        unfold HubSt.abs
        simp only [he, ho, updConn_shut, Bool.false_eq_true, ↓reduceIte, Bool.and_false, List.append_nil]
      · simp only [↓reduceIte]
        obtain ⟨h1, h2⟩ := HubSt.subscriptionEvents_abs M
          { st with conns := updConn st.conns l (fun c =>
                      { c with closedOut := true, exited := true, done := true, shutdownOpen := true }),
                    index := st.index.filter (· != l) } c false
        refine ⟨?_, h2⟩
        rw [abs_metrics, h1]
        have hcl : st.closed = false := by cases hh : st.closed <;> simp [hh] at ho ⊢
        have hep : (c.epoch == st.epoch) = true := by rw [hcl] at ho; simpa using ho
        unfold HubSt.abs
        simp only [he, hsels, hep, hl, hcl, updConn_shut, ↓reduceIte, Bool.and_true, Bool.not_false]

/-! ### settle and the operations generate abstract steps -/

theorem Gen.of_shutdown (M : Str → Str → Bool) (st : HubSt) (l : Nat) : Gen [] st.abs (st.shutdown M l).abs := by
  obtain ⟨h1, h2⟩ := HubSt.shutdown_abs M st l
  rw [h1]; exact Gen.shutdown l _ h2 (Gen.refl _)

theorem Gen.of_foldl_shutdown (M : Str → Str → Bool) (ls : List Nat) :
    ∀ st : HubSt, Gen [] st.abs (ls.foldl (HubSt.shutdown M) st).abs := by
  induction ls with
  | nil => intro st; exact Gen.refl _
  | cons l ls ih => intro st; exact (Gen.of_shutdown M st l).trans' (ih _)

theorem abs_pump (st : HubSt) : ({ st with conns := st.conns.map Conn.pump } : HubSt).abs = st.abs := by
  unfold HubSt.abs; simp only [map_core_of_preserving Conn.pump_core]

theorem Gen.of_settle (M : Str → Str → Bool) : ∀ (fuel : Nat) (st : HubSt), Gen [] st.abs (st.settle M fuel).abs := by
  intro fuel
  induction fuel with
  | zero => intro st; exact Gen.refl _
  | succ n ih =>
    intro st
    rw [HubSt.settle]
    simp only []
    split
    · split
      · exact Gen.of_eq (abs_pump st)
      · exact (Gen.of_eq (abs_pump st)).trans' (ih _)
    · exact ((Gen.of_eq (abs_pump st)).trans' (Gen.of_foldl_shutdown M _ _)).trans' (ih _)

theorem Gen.of_dispatch (M : Str → Str → Bool) (st : HubSt) (u : Update) : Gen [] st.abs (st.dispatch M u).1.abs := by
  obtain ⟨h1, h2, _⟩ := HubSt.dispatch_abs M st u
  rw [h1]; exact Gen.bump _ h2 (Gen.refl _)

theorem Gen.of_publish (M : Str → Str → Bool) (tok : Str → Option Claims) (st : HubSt) (r : PubReq) :
    Gen [] st.abs (st.publish M tok r).1.abs := by
  unfold HubSt.publish
  split
  · exact Gen.refl _
  · rename_i u _
    have hd := Gen.of_dispatch M st u
    split
    · rename_i st' id heq
      rw [heq] at hd
      simp only at hd ⊢
      refine hd.trans' ?_
      refine Gen.trans' ?_ (Gen.of_settle M _ _)
      exact Gen.of_eq rfl
    · rename_i st' heq
      rw [heq] at hd
      exact hd

theorem abs_updConn (st : HubSt) (l : Nat) {f : Conn → Conn} (hf : ∀ c, (f c).core = c.core) :
    ({ st with conns := updConn st.conns l f } : HubSt).abs = st.abs := by
  unfold HubSt.abs; simp only [updConn_core_of_preserving hf]

theorem Gen.of_clientClose (M : Str → Str → Bool) (st : HubSt) (l : Nat) :
    Gen [] st.abs (st.clientClose M l).abs := by
  unfold HubSt.clientClose
  split
  · exact Gen.refl _
  · split
    · exact Gen.refl _
    · simp only []
      refine Gen.trans' ?_ (Gen.of_settle M _ _)
      refine Gen.trans' ?_ (Gen.of_shutdown M _ l)
      exact Gen.of_eq (abs_updConn st l (fun _ => rfl))

theorem Gen.of_setStalled (M : Str → Str → Bool) (st : HubSt) (l : Nat) (b : Bool) :
    Gen [] st.abs (st.setStalled M l b).abs := by
  unfold HubSt.setStalled
  simp only []
  refine Gen.trans' ?_ (Gen.of_settle M _ _)
  exact Gen.of_eq (abs_updConn st l (fun _ => rfl))

theorem Gen.of_failNextWrite (st : HubSt) (l : Nat) : Gen [] st.abs (st.failNextWrite l).abs := by
  unfold HubSt.failNextWrite
  exact Gen.of_eq (abs_updConn st l (fun _ => rfl))

theorem Gen.of_close (M : Str → Str → Bool) (st : HubSt) : Gen [] st.abs (st.close M).abs := by
  unfold HubSt.close
  split
  · exact Gen.refl _
  · simp only []
    refine Gen.close (Gen.trans' (Gen.of_eq ?_) (Gen.of_settle M _ _))
    unfold HubSt.abs
    simp only [Abs.mk.injEq, and_true, true_and]
    apply map_core_of_preserving
    intro c; split <;> rfl

theorem Gen.of_restart (M : Str → Str → Bool) (st : HubSt) : Gen [] st.abs (st.restart M).abs := by
  unfold HubSt.restart
  simp only []
  refine (Gen.of_close M st).trans' (Gen.restart (Gen.of_eq rfl))

/-! ### connect -/

def connectPair (M : Str → Str → Bool) (st1 : HubSt) (conn : Conn) (leid : Str) : Option Str × Conn :=
  if leid == [] then (none, conn)
  else match st1.kind with
    | .local => (some earliest, conn)
    | .bolt =>
      let (rid, ups) := negotiate st1.db leid
      (some rid, { conn.replay M st1.cap ups with replayed := ups })

def connectOpen (st1 : HubSt) (label : Nat) (p : Option Str × Conn) : HubSt :=
  { st1 with conns := st1.conns ++ [{ p.2 with respLEID := p.1, joinedAt := st1.accepted.length }],
             index := st1.index ++ [label],
             metrics := { st1.metrics with total := st1.metrics.total + 1, gauge := st1.metrics.gauge + 1 },
             openStreams := st1.openStreams + 1 }

def connectFst (M : Str → Str → Bool) (st : HubSt) (label : Nat) (r : SubReq) : SubDecision → HubSt
  | .refused _ _ => { st with uuid := st.uuid + 1 }
  | .accepted c priv leid =>
    let conn : Conn := { label := label, sid := uuidOf st.uuid, sels := r.topics, allowed := priv,
                         payload := (match c with | some c => c.mercure.payload | none => []),
                         reqLEID := leid, respLEID := none, epoch := st.epoch }
    let st1 := ({ st with uuid := st.uuid + 1 } : HubSt).subscriptionEvents M conn true
    if st1.closed then st1.subscriptionEvents M conn false
    else (connectOpen st1 label (connectPair M st1 conn leid)).settle M
           ((connectOpen st1 label (connectPair M st1 conn leid)).conns.length + 2)

theorem connect_fst_eq (M : Str → Str → Bool) (tok : Str → Option Claims) (st : HubSt) (label : Nat) (r : SubReq) :
    (st.connect M tok label r).1 = connectFst M st label r (subscribeDecision st.cfg tok r) := by
  unfold HubSt.connect
  dsimp only []
  cases subscribeDecision st.cfg tok r with
  | refused s b => rfl
  | accepted c priv leid => exact apply_ite Prod.fst _ _ _

theorem connectPair_core (M : Str → Str → Bool) (st1 : HubSt) (conn : Conn) (leid : Str) :
    (connectPair M st1 conn leid).2.core = conn.core := by
  unfold connectPair
  split
  · rfl
  · split
    · rfl
    · exact Conn.replay_core M st1.cap _ conn

theorem connectOpen_abs (st1 : HubSt) (label : Nat) (p : Option Str × Conn) :
    (connectOpen st1 label p).abs =
      { st1.abs with conns := st1.abs.conns ++ [p.2.core], index := st1.index ++ [label] } := by
  unfold connectOpen HubSt.abs
  simp only [List.map_append, List.map_cons, List.map_nil]
  rfl

theorem Gen.of_connect (M : Str → Str → Bool) (tok : Str → Option Claims) (st : HubSt) (label : Nat) (r : SubReq) :
    ∃ L, L.Sublist [label] ∧ Gen L st.abs (st.connect M tok label r).1.abs := by
  rw [connect_fst_eq]
  cases subscribeDecision st.cfg tok r with
  | refused s b => exact ⟨[], List.nil_sublist _, Gen.bump _ (Nat.le_succ _) (Gen.refl _)⟩
  | accepted c priv leid =>
    unfold connectFst
    dsimp only []
    generalize hconn : ({ label := label, sid := uuidOf st.uuid, sels := r.topics, allowed := priv,
                          payload := (match c with | some c => c.mercure.payload | none => []),
                          reqLEID := leid, respLEID := none, epoch := st.epoch } : Conn) = conn
    have hlabel : conn.label = label := by rw [← hconn]
    have hsid : conn.sid = uuidOf st.uuid := by rw [← hconn]
    have hepoch : conn.epoch = st.epoch := by rw [← hconn]
    have hdone : conn.done = false := by rw [← hconn]
    have hso : conn.shutdownOpen = false := by rw [← hconn]
    obtain ⟨h1, h2⟩ := HubSt.subscriptionEvents_abs M { st with uuid := st.uuid + 1 } conn true
    generalize HubSt.subscriptionEvents M { st with uuid := st.uuid + 1 } conn true = st1 at h1 h2 ⊢
    dsimp only [] at h1 h2
    have hcl1 : st1.closed = st.closed := congrArg Abs.closed h1
    by_cases hcl : st1.closed = true
    · rw [if_pos hcl]
      obtain ⟨h3, h4⟩ := HubSt.subscriptionEvents_abs M st1 conn false
      refine ⟨[], List.nil_sublist _, ?_⟩
      rw [h3]
      have hev : st1.events = st.events := by
        have : st1.events = st.events ++ _ := congrArg Abs.events h1
        rw [← hcl1, hcl] at this
        simpa using this
      refine Gen.bump (st1.subscriptionEvents M conn false).uuid (by show st.uuid ≤ _; omega) (Gen.of_eq ?_)
      rw [h1, hev]
      simp [hcl, HubSt.abs]
    · rw [if_neg hcl]
      refine ⟨[label], List.Sublist.refl _, ?_⟩
      refine Gen.trans (L1 := [label]) (L2 := []) ?_ (Gen.of_settle M _ _)
      have hclf : st.closed = false := by rw [← hcl1]; simpa using hcl
      have e : (connectOpen st1 label (connectPair M st1 conn leid)).abs = st.abs.connect conn.core st1.uuid := by
        rw [connectOpen_abs, connectPair_core, h1]
        unfold Abs.connect
        have hi : st1.index = st.index := congrArg Abs.index h1
        rw [hi]
        simp [HubSt.abs, hclf, Conn.core, hlabel]
      rw [e]
      have := Gen.connect (L := []) (a := st.abs) (b := st.abs.connect conn.core st1.uuid) conn.core st1.uuid hclf hsid
        (by show st.uuid < st1.uuid; omega) hepoch hdone hso (Gen.refl _)
      rw [show conn.core.label = label from hlabel] at this
      exact this

/-! ### connectFailing -/

def connectFailFst (M : Str → Str → Bool) (st : HubSt) (label : Nat) (r : SubReq) : SubDecision → HubSt
  | .refused _ _ => { st with uuid := st.uuid + 1 }
  | .accepted c priv leid =>
    let conn : Conn := { label := label, sid := uuidOf st.uuid, sels := r.topics, allowed := priv,
                         payload := (match c with | some c => c.mercure.payload | none => []),
                         reqLEID := leid, respLEID := none, epoch := st.epoch }
    let st2 := (({ st with uuid := st.uuid + 1 } : HubSt).subscriptionEvents M conn true).subscriptionEvents M conn false
    let st3 : HubSt := { st2 with failed := st2.failed ++ [(label, r.topics, !st.closed)] }
    st3.settle M (st3.conns.length + 2)

theorem connectFailing_fst_eq (M : Str → Str → Bool) (tok : Str → Option Claims) (st : HubSt) (label : Nat)
    (r : SubReq) :
    (st.connectFailing M tok label r).1 = connectFailFst M st label r (subscribeDecision st.cfg tok r) := by
  unfold HubSt.connectFailing
  dsimp only []
  cases subscribeDecision st.cfg tok r with
  | refused s b => rfl
  | accepted c priv leid => rfl

theorem Gen.of_connectFailing (M : Str → Str → Bool) (tok : Str → Option Claims) (st : HubSt) (label : Nat)
    (r : SubReq) :
    ∃ L, L.Sublist [label] ∧ Gen L st.abs (st.connectFailing M tok label r).1.abs := by
  rw [connectFailing_fst_eq]
  cases subscribeDecision st.cfg tok r with
  | refused s b => exact ⟨[], List.nil_sublist _, Gen.bump _ (Nat.le_succ _) (Gen.refl _)⟩
  | accepted c priv leid =>
    unfold connectFailFst
    dsimp only []
    generalize hconn : ({ label := label, sid := uuidOf st.uuid, sels := r.topics, allowed := priv,
                          payload := (match c with | some c => c.mercure.payload | none => []),
                          reqLEID := leid, respLEID := none, epoch := st.epoch } : Conn) = conn
    have hlabel : conn.label = label := by rw [← hconn]
    have hsels : conn.sels = r.topics := by rw [← hconn]
    obtain ⟨h1, h2⟩ := HubSt.subscriptionEvents_abs M { st with uuid := st.uuid + 1 } conn true
    generalize HubSt.subscriptionEvents M { st with uuid := st.uuid + 1 } conn true = st1 at h1 h2 ⊢
    dsimp only [] at h1 h2
    obtain ⟨h3, h4⟩ := HubSt.subscriptionEvents_abs M st1 conn false
    generalize HubSt.subscriptionEvents M st1 conn false = st2 at h3 h4 ⊢
    refine ⟨[label], List.Sublist.refl _,
      Gen.fail label r.topics st2.uuid (by show st.uuid ≤ _; omega)
        (Gen.trans' (Gen.of_eq ?_) (Gen.of_settle M _ _))⟩
    have e : ({ st2 with failed := st2.failed ++ [(label, r.topics, !st.closed)] } : HubSt).abs =
        { st2.abs with failed := st2.abs.failed ++ [(label, r.topics, !st.closed)] } := rfl
    have hcfg1 : st1.cfg = st.cfg := congrArg Abs.cfg h1
    have hcl1 : st1.closed = st.closed := congrArg Abs.closed h1
    have hev1 : st1.events = st.events ++ (if st.cfg.subscriptions && !st.closed
        then conn.sels.map (fun s => (conn.label, s, true)) else []) := congrArg Abs.events h1
    rw [e, h3, hcfg1, hcl1, hev1, h1, hlabel, hsels]
    rfl

theorem filterMap_cons_toList {α β : Type} (f : α → Option β) (x : α) (xs : List α) :
    (x :: xs).filterMap f = (f x).toList ++ xs.filterMap f := by
  rw [List.filterMap_cons]; cases f x <;> rfl

theorem Gen.of_step (M : Str → Str → Bool) (tokP tokS : Str → Option Claims) (st : HubSt) (op : HubOp) :
    ∃ L, L.Sublist op.connectLabel.toList ∧ Gen L st.abs (HubSt.step M tokP tokS st op).abs := by
  cases op with
  | publish r => exact ⟨[], List.nil_sublist _, Gen.of_publish M tokP st r⟩
  | connect l r => exact Gen.of_connect M tokS st l r
  | connectFail l r => exact Gen.of_connectFailing M tokS st l r
  | clientClose l => exact ⟨[], List.nil_sublist _, Gen.of_clientClose M st l⟩
  | stall l b => exact ⟨[], List.nil_sublist _, Gen.of_setStalled M st l b⟩
  | failNext l => exact ⟨[], List.nil_sublist _, Gen.of_failNextWrite st l⟩
  | close => exact ⟨[], List.nil_sublist _, Gen.of_close M st⟩
  | restart => exact ⟨[], List.nil_sublist _, Gen.of_restart M st⟩

theorem Gen.of_run (M : Str → Str → Bool) (tokP tokS : Str → Option Claims) (ops : List HubOp) :
    ∀ st : HubSt, ∃ L, L.Sublist (ops.filterMap HubOp.connectLabel) ∧
      Gen L st.abs (HubSt.run M tokP tokS st ops).abs := by
  induction ops with
  | nil => intro st; exact ⟨[], List.nil_sublist _, Gen.refl _⟩
  | cons op ops ih =>
    intro st
    obtain ⟨L1, hs1, g1⟩ := Gen.of_step M tokP tokS st op
    obtain ⟨L2, hs2, g2⟩ := ih (HubSt.step M tokP tokS st op)
    refine ⟨L1 ++ L2, ?_, ?_⟩
    · rw [filterMap_cons_toList]; exact List.Sublist.append hs1 hs2
    · exact Gen.trans g1 g2

/-! ### the invariant on abstract states -/

def aevs (ev : List (Nat × Str × Bool)) (l : Nat) (a : Bool) : List Str :=
  (ev.filter (fun e => e.1 == l && e.2.2 == a)).map (·.2.1)

theorem aevs_append (e1 e2 : List (Nat × Str × Bool)) (l : Nat) (a : Bool) :
    aevs (e1 ++ e2) l a = aevs e1 l a ++ aevs e2 l a := by
  simp [aevs]

theorem aevs_map_sels (l l' : Nat) (a a' : Bool) (sels : List Str) :
    aevs (sels.map (fun s => (l, s, a))) l' a' = if l == l' && a == a' then sels else [] := by
  unfold aevs
  rw [List.filter_map, List.map_map]
  by_cases h : (l == l' && a == a') = true
  · rw [if_pos h]
    have : ((fun e : Nat × Str × Bool => e.1 == l' && e.2.2 == a') ∘ fun s => (l, s, a)) = fun _ => true := by
      funext s; exact h
    rw [this]
    simp [Function.comp_def]
  · rw [if_neg h]
    have : ((fun e : Nat × Str × Bool => e.1 == l' && e.2.2 == a') ∘ fun s => (l, s, a)) = fun _ => false := by
      funext s; simpa using h
    rw [this]
    simp

theorem aevs_of_no_label (ev : List (Nat × Str × Bool)) (l : Nat) (a : Bool) (h : ∀ e ∈ ev, e.1 ≠ l) :
    aevs ev l a = [] := by
  unfold aevs
  rw [List.map_eq_nil_iff, List.filter_eq_nil_iff]
  intro e he
  have := h e he
  simp [this]

theorem eq_of_map_nodup {α β : Type} (f : α → β) {l : List α} (hu : (l.map f).Nodup) {x y : α}
    (hx : x ∈ l) (hy : y ∈ l) (h : f x = f y) : x = y := by
  induction l with
  | nil => cases hx
  | cons z zs ih =>
    rw [List.map_cons, List.nodup_cons] at hu
    rcases List.mem_cons.1 hx with h1 | hx1 <;> rcases List.mem_cons.1 hy with h2 | hy2
    · rw [h1, h2]
    · subst h1; exact absurd (List.mem_map.2 ⟨y, hy2, h.symm⟩) hu.1
    · subst h2; exact absurd (List.mem_map.2 ⟨x, hx1, h⟩) hu.1
    · exact ih hu.2 hx1 hy2

/-- Every label in use: those of the connections, then those of the registrations that failed half-way. -/
def Abs.labs (a : Abs) : List Nat := a.conns.map (·.label) ++ a.failed.map (·.1)

theorem labs_nodup_conns {a : Abs} (h : a.labs.Nodup) : (a.conns.map (·.label)).Nodup :=
  (List.nodup_append.1 h).1

theorem labs_nodup_disj {a : Abs} (h : a.labs.Nodup) :
    ∀ c ∈ a.conns, ∀ f ∈ a.failed, c.label ≠ f.1 := fun c hc f hf =>
  (List.nodup_append.1 h).2.2 c.label (List.mem_map.2 ⟨c, hc, rfl⟩) f.1 (List.mem_map.2 ⟨f, hf, rfl⟩)

theorem nodup_insert_mid {xs fs : List Nat} {c : Nat} (h : (xs ++ [c] ++ fs).Nodup) :
    (xs ++ fs).Nodup ∧ c ∉ xs ∧ c ∉ fs := by
  have hp : (xs ++ [c] ++ fs).Perm (c :: (xs ++ fs)) := by
    rw [List.append_assoc]; exact List.perm_middle
  have h' := hp.nodup_iff.1 h
  rw [List.nodup_cons, List.mem_append, not_or] at h'
  exact ⟨h'.2, h'.1.1, h'.1.2⟩

theorem nodup_snoc {ys : List Nat} {l : Nat} (h : (ys ++ [l]).Nodup) : ys.Nodup ∧ l ∉ ys := by
  rw [List.nodup_append] at h
  exact ⟨h.1, fun hm => h.2.2 l hm l (List.mem_singleton.2 rfl) rfl⟩

structure Inv (cfg0 : HubCfg) (a : Abs) : Prop where
  cfg : a.cfg = cfg0
  so_done : ∀ c ∈ a.conns, c.shutdownOpen = true → c.done = true
  ev_labels : ∀ e ∈ a.events, (∃ c ∈ a.conns, c.label = e.1) ∨ (∃ f ∈ a.failed, f.1 = e.1)
  ev_off : a.cfg.subscriptions = false → a.events = []
  epoch_le : ∀ c ∈ a.conns, c.epoch ≤ a.epoch
  sids : ∃ ns : List Nat, a.conns.map (·.sid) = ns.map uuidOf ∧ ns.Pairwise (· < ·) ∧ ∀ n ∈ ns, n < a.uuid
  idx_sub : ∀ l ∈ a.index, ∃ c ∈ a.conns, c.label = l
  index : a.labs.Nodup → a.closed = false →
    a.index = (a.conns.filter (fun c => !c.done && c.epoch == a.epoch)).map (·.label)
  ev_start : a.labs.Nodup → a.cfg.subscriptions = true →
    ∀ c ∈ a.conns, aevs a.events c.label true = c.sels
  ev_end : a.labs.Nodup → a.cfg.subscriptions = true →
    ∀ c ∈ a.conns, aevs a.events c.label false = if c.shutdownOpen then c.sels else []
  ev_fail : a.labs.Nodup → a.cfg.subscriptions = true →
    ∀ f ∈ a.failed, aevs a.events f.1 true = (if f.2.2 then f.2.1 else []) ∧
                    aevs a.events f.1 false = (if f.2.2 then f.2.1 else [])

/-- No event carries a label that is not in use. -/
theorem Inv.ev_fresh {cfg0 : HubCfg} {a : Abs} (h : Inv cfg0 a) (l : Nat)
    (h1 : ∀ x ∈ a.conns, x.label ≠ l) (h2 : ∀ f ∈ a.failed, f.1 ≠ l) : ∀ e ∈ a.events, e.1 ≠ l := by
  intro e he
  rcases h.ev_labels e he with ⟨x, hx, hxe⟩ | ⟨f, hf, hfe⟩
  · rw [← hxe]; exact h1 x hx
  · rw [← hfe]; exact h2 f hf

theorem Inv.bump {cfg0 : HubCfg} {a : Abs} (h : Inv cfg0 a) (n : Nat) (hn : a.uuid ≤ n) :
    Inv cfg0 { a with uuid := n } := by
  obtain ⟨ns, h1, h2, h3⟩ := h.sids
  exact { h with sids := ⟨ns, h1, h2, fun m hm => Nat.lt_of_lt_of_le (h3 m hm) hn⟩ }

theorem Inv.close {cfg0 : HubCfg} {a : Abs} (h : Inv cfg0 a) : Inv cfg0 { a with closed := true } :=
  { h with index := fun _ hc => by cases hc }

theorem Inv.restart {cfg0 : HubCfg} {a : Abs} (h : Inv cfg0 a) :
    Inv cfg0 { a with closed := false, index := [], epoch := a.epoch + 1 } :=
  { h with
    epoch_le := fun c hc => Nat.le_succ_of_le (h.epoch_le c hc)
    idx_sub := fun l hl => by cases hl
    index := by
      intro _ _
      show [] = _
      have : a.conns.filter (fun c => !c.done && c.epoch == a.epoch + 1) = [] := by
        rw [List.filter_eq_nil_iff]
        intro c hc
        have := h.epoch_le c hc
        have hne : ¬ c.epoch = a.epoch + 1 := by omega
        simp [hne]
      rw [this]; rfl }

theorem Inv.connect {cfg0 : HubCfg} {a : Abs} (h : Inv cfg0 a) (c : CoreC) (n : Nat) (hc : a.closed = false)
    (hs : c.sid = uuidOf a.uuid) (hn : a.uuid < n) (he : c.epoch = a.epoch) (hd : c.done = false)
    (ho : c.shutdownOpen = false) : Inv cfg0 (a.connect c n) := by
  have hconns : (a.connect c n).conns = a.conns ++ [c] := rfl
  have hevents : (a.connect c n).events =
      a.events ++ (if a.cfg.subscriptions then c.sels.map (fun s => (c.label, s, true)) else []) := rfl
  have hcfg : (a.connect c n).cfg = a.cfg := rfl
  have hlab : (a.connect c n).labs = a.conns.map (·.label) ++ [c.label] ++ a.failed.map (·.1) := by
    show (a.conns ++ [c]).map (·.label) ++ a.failed.map (·.1) = _
    rw [List.map_append]; rfl
  have hmem : ∀ x, x ∈ (a.connect c n).conns ↔ x ∈ a.conns ∨ x = c := by
    intro x; rw [hconns, List.mem_append, List.mem_singleton]
  -- consequences of label freshness
  have hfresh : (a.conns.map (·.label) ++ [c.label] ++ a.failed.map (·.1)).Nodup →
      a.labs.Nodup ∧ (∀ x ∈ a.conns, x.label ≠ c.label) ∧ (∀ f ∈ a.failed, f.1 ≠ c.label) ∧
        ∀ e ∈ a.events, e.1 ≠ c.label := by
    intro hnd
    obtain ⟨h1, h2, h3⟩ := nodup_insert_mid hnd
    have h4 : ∀ x ∈ a.conns, x.label ≠ c.label := fun x hx e =>
      h2 (e ▸ List.mem_map.2 ⟨x, hx, rfl⟩)
    have h5 : ∀ f ∈ a.failed, f.1 ≠ c.label := fun f hf e =>
      h3 (e ▸ List.mem_map.2 ⟨f, hf, rfl⟩)
    exact ⟨h1, h4, h5, h.ev_fresh c.label h4 h5⟩
  refine { cfg := h.cfg, so_done := ?_, ev_labels := ?_, ev_off := ?_, epoch_le := ?_, sids := ?_,
           idx_sub := ?_, index := ?_, ev_start := ?_, ev_end := ?_, ev_fail := ?_ }
  · intro x hx hxo
    rcases (hmem x).1 hx with hx | hx
    · exact h.so_done x hx hxo
    · rw [hx, ho] at hxo; cases hxo
  · intro e hee
    rw [hevents] at hee
    rcases List.mem_append.1 hee with he1 | he2
    · rcases h.ev_labels e he1 with ⟨x, hx, hxe⟩ | hf
      · exact Or.inl ⟨x, (hmem x).2 (Or.inl hx), hxe⟩
      · exact Or.inr hf
    · refine Or.inl ⟨c, (hmem c).2 (Or.inr rfl), ?_⟩
      split at he2
      · obtain ⟨s, _, hse⟩ := List.mem_map.1 he2
        rw [← hse]
      · cases he2
  · intro hoff
    rw [hcfg] at hoff
    rw [hevents, h.ev_off hoff, hoff]; rfl
  · intro x hx
    show x.epoch ≤ a.epoch
    rcases (hmem x).1 hx with hx | hx
    · exact h.epoch_le x hx
    · rw [hx, he]; exact Nat.le_refl _
  · obtain ⟨ns, h1, h2, h3⟩ := h.sids
    refine ⟨ns ++ [a.uuid], ?_, ?_, ?_⟩
    · rw [hconns, List.map_append, List.map_append, h1]; simp [hs]
    · rw [List.pairwise_append]
      refine ⟨h2, List.pairwise_singleton _ _, ?_⟩
      intro x hx y hy
      rw [List.mem_singleton.1 hy]; exact h3 x hx
    · intro m hm
      show m < n
      rcases List.mem_append.1 hm with hm | hm
      · exact Nat.lt_trans (h3 m hm) hn
      · rw [List.mem_singleton.1 hm]; exact hn
  · intro l hl
    have hl' : l ∈ a.index ++ [c.label] := hl
    rcases List.mem_append.1 hl' with hl1 | hl2
    · obtain ⟨x, hx, hxl⟩ := h.idx_sub l hl1
      exact ⟨x, (hmem x).2 (Or.inl hx), hxl⟩
    · exact ⟨c, (hmem c).2 (Or.inr rfl), (List.mem_singleton.1 hl2).symm⟩
  · intro hnd _
    rw [hlab] at hnd
    obtain ⟨hnd', _, _, _⟩ := hfresh hnd
    have hidx := h.index hnd' hc
    show a.index ++ [c.label] = ((a.conns ++ [c]).filter (fun x => !x.done && x.epoch == a.epoch)).map (·.label)
    rw [List.filter_append, List.map_append, ← hidx]
    simp [hd, he]
  · intro hnd hsub x hx
    rw [hlab] at hnd
    obtain ⟨hnd', hfl, _, hfe⟩ := hfresh hnd
    rw [hcfg] at hsub
    rw [hevents, hsub, if_pos rfl, aevs_append, aevs_map_sels]
    rcases (hmem x).1 hx with hx | hx
    · have hne : ¬ c.label = x.label := fun e => hfl x hx e.symm
      rw [h.ev_start hnd' hsub x hx]
      simp [hne]
    · rw [hx, aevs_of_no_label _ _ _ hfe]
      simp
  · intro hnd hsub x hx
    rw [hlab] at hnd
    obtain ⟨hnd', hfl, _, hfe⟩ := hfresh hnd
    rw [hcfg] at hsub
    rw [hevents, hsub, if_pos rfl, aevs_append, aevs_map_sels]
    rcases (hmem x).1 hx with hx | hx
    · rw [h.ev_end hnd' hsub x hx]
      simp
    · rw [hx, aevs_of_no_label _ _ _ hfe, ho]
      simp
  · intro hnd hsub f hf
    rw [hlab] at hnd
    obtain ⟨hnd', _, hff, _⟩ := hfresh hnd
    rw [hcfg] at hsub
    have hf' : f ∈ a.failed := hf
    have hne : ¬ c.label = f.1 := fun e => hff f hf' e.symm
    obtain ⟨e1, e2⟩ := h.ev_fail hnd' hsub f hf'
    rw [hevents, hsub, if_pos rfl, aevs_append, aevs_append, aevs_map_sels, aevs_map_sels, e1, e2]
    simp [hne]

/-! #### a failed registration preserves the invariant -/

theorem Inv.fail {cfg0 : HubCfg} {a : Abs} (h : Inv cfg0 a) (l : Nat) (sels : List Str) (n : Nat)
    (hn : a.uuid ≤ n) : Inv cfg0 (a.fail l sels n) := by
  generalize ho : (a.cfg.subscriptions && !a.closed) = o
  have hevents : (a.fail l sels n).events =
      a.events ++ (if o then sels.map (fun s => (l, s, true)) else [])
        ++ (if o then sels.map (fun s => (l, s, false)) else []) := by rw [← ho]; rfl
  have hfailed : (a.fail l sels n).failed = a.failed ++ [(l, sels, !a.closed)] := rfl
  have hlab : (a.fail l sels n).labs = a.labs ++ [l] := by
    show a.conns.map (·.label) ++ (a.failed ++ [(l, sels, !a.closed)]).map (·.1) = _
    rw [List.map_append, ← List.append_assoc]; rfl
  have hfresh : (a.labs ++ [l]).Nodup →
      a.labs.Nodup ∧ (∀ x ∈ a.conns, x.label ≠ l) ∧ (∀ f ∈ a.failed, f.1 ≠ l) ∧ ∀ e ∈ a.events, e.1 ≠ l := by
    intro hnd
    obtain ⟨h1, h2⟩ := nodup_snoc hnd
    have h4 : ∀ x ∈ a.conns, x.label ≠ l := fun x hx e =>
      h2 (List.mem_append.2 (Or.inl (e ▸ List.mem_map.2 ⟨x, hx, rfl⟩)))
    have h5 : ∀ f ∈ a.failed, f.1 ≠ l := fun f hf e =>
      h2 (List.mem_append.2 (Or.inr (e ▸ List.mem_map.2 ⟨f, hf, rfl⟩)))
    exact ⟨h1, h4, h5, h.ev_fresh l h4 h5⟩
  -- the new events, seen from label `l'`
  have hnew : ∀ (l' : Nat) (b : Bool),
      aevs (a.fail l sels n).events l' b = aevs a.events l' b ++ (if o && l == l' then sels else []) := by
    intro l' b
    rw [hevents, aevs_append, aevs_append, List.append_assoc]
    congr 1
    cases o
    · simp [aevs]
    · simp only [if_true, aevs_map_sels, Bool.true_and]
      by_cases hl : (l == l') = true
      · cases b <;> simp [hl]
      · cases b <;> simp [hl]
  refine { cfg := h.cfg, so_done := h.so_done, ev_labels := ?_, ev_off := ?_, epoch_le := h.epoch_le, sids := ?_,
           idx_sub := h.idx_sub, index := ?_, ev_start := ?_, ev_end := ?_, ev_fail := ?_ }
  · intro e hee
    rw [hevents, List.append_assoc] at hee
    rcases List.mem_append.1 hee with he1 | he2
    · rcases h.ev_labels e he1 with hc | ⟨f, hf, hfe⟩
      · exact Or.inl hc
      · exact Or.inr ⟨f, by rw [hfailed]; exact List.mem_append.2 (Or.inl hf), hfe⟩
    · refine Or.inr ⟨(l, sels, !a.closed), by rw [hfailed]; exact List.mem_append.2 (Or.inr (List.mem_singleton.2 rfl)), ?_⟩
      cases o
      · simp at he2
      · simp only [if_true, List.mem_append, List.mem_map] at he2
        rcases he2 with ⟨s, _, hse⟩ | ⟨s, _, hse⟩ <;> rw [← hse]
  · intro hoff
    have hoff' : a.cfg.subscriptions = false := hoff
    rw [hevents, h.ev_off hoff']
    rw [hoff'] at ho
    rw [← ho]; rfl
  · obtain ⟨ns, h1, h2, h3⟩ := h.sids
    exact ⟨ns, h1, h2, fun m hm => Nat.lt_of_lt_of_le (h3 m hm) hn⟩
  · intro hnd hcl
    rw [hlab] at hnd
    exact h.index (hfresh hnd).1 hcl
  · intro hnd hsub x hx
    rw [hlab] at hnd
    obtain ⟨hnd', hfl, _, _⟩ := hfresh hnd
    have hx' : x ∈ a.conns := hx
    have hne : (l == x.label) = false := by simpa using fun e => hfl x hx' e.symm
    rw [hnew, hne, Bool.and_false, h.ev_start hnd' hsub x hx']
    simp
  · intro hnd hsub x hx
    rw [hlab] at hnd
    obtain ⟨hnd', hfl, _, _⟩ := hfresh hnd
    have hx' : x ∈ a.conns := hx
    have hne : (l == x.label) = false := by simpa using fun e => hfl x hx' e.symm
    rw [hnew, hne, Bool.and_false, h.ev_end hnd' hsub x hx']
    simp
  · intro hnd hsub f hf
    rw [hlab] at hnd
    obtain ⟨hnd', _, hff, hfe⟩ := hfresh hnd
    have hsub' : a.cfg.subscriptions = true := hsub
    rw [hfailed] at hf
    rcases List.mem_append.1 hf with hf1 | hf2
    · have hne : (l == f.1) = false := by simpa using fun e => hff f hf1 e.symm
      obtain ⟨e1, e2⟩ := h.ev_fail hnd' hsub' f hf1
      rw [hnew, hnew, hne, Bool.and_false, e1, e2]
      simp
    · rw [List.mem_singleton.1 hf2]
      show aevs _ l true = (if (!a.closed) = true then sels else []) ∧
           aevs _ l false = (if (!a.closed) = true then sels else [])
      rw [hnew, hnew, aevs_of_no_label _ _ _ hfe, aevs_of_no_label _ _ _ hfe]
      rw [hsub', Bool.true_and] at ho
      rw [ho]
      simp

/-! #### shutdown preserves the invariant -/

theorem shut_label (l : Nat) (o : Bool) (y : CoreC) : (CoreC.shut l o y).label = y.label := by
  unfold CoreC.shut; split <;> rfl
theorem shut_sid (l : Nat) (o : Bool) (y : CoreC) : (CoreC.shut l o y).sid = y.sid := by
  unfold CoreC.shut; split <;> rfl
theorem shut_sels (l : Nat) (o : Bool) (y : CoreC) : (CoreC.shut l o y).sels = y.sels := by
  unfold CoreC.shut; split <;> rfl
theorem shut_epoch (l : Nat) (o : Bool) (y : CoreC) : (CoreC.shut l o y).epoch = y.epoch := by
  unfold CoreC.shut; split <;> rfl
theorem shut_of_ne (l : Nat) (o : Bool) (y : CoreC) (h : y.label ≠ l) : CoreC.shut l o y = y := by
  unfold CoreC.shut; rw [if_neg (by simpa using h)]
theorem shut_of_eq (l : Nat) (o : Bool) (y : CoreC) (h : y.label = l) :
    CoreC.shut l o y = { y with done := true, shutdownOpen := o } := by
  unfold CoreC.shut; rw [if_pos (by simpa using h)]

theorem shut_filter_open (l : Nat) (o : Bool) (E : Nat) (conns : List CoreC) :
    ((conns.map (CoreC.shut l o)).filter (fun c => !c.done && c.epoch == E)).map (·.label) =
      ((conns.filter (fun c => !c.done && c.epoch == E)).map (·.label)).filter (· != l) := by
  induction conns with
  | nil => rfl
  | cons y ys ih =>
    rw [List.map_cons, List.filter_cons, List.filter_cons]
    by_cases hy : y.label = l
    · rw [shut_of_eq l o y hy]
      simp only [Bool.not_true, Bool.false_and, Bool.false_eq_true, ↓reduceIte]
      rw [ih]
      split
      · rw [List.map_cons, List.filter_cons]
        simp [hy]
      · rfl
    · rw [shut_of_ne l o y hy]
      split
      · rw [List.map_cons, List.map_cons, List.filter_cons, ih]
        simp [hy]
      · exact ih

theorem shut_filter_other (l : Nat) (o : Bool) (p : CoreC → Bool) (conns : List CoreC)
    (hp : ∀ y, p (CoreC.shut l o y) = true → y.label = l → False)
    (hq : ∀ y ∈ conns, y.label = l → p y = false) :
    ((conns.map (CoreC.shut l o)).filter p).map (·.label) = (conns.filter p).map (·.label) := by
  induction conns with
  | nil => rfl
  | cons y ys ih =>
    have ih' := ih (fun z hz => hq z (List.mem_cons_of_mem _ hz))
    rw [List.map_cons, List.filter_cons, List.filter_cons]
    by_cases hy : y.label = l
    · have h1 : ¬ p (CoreC.shut l o y) = true := fun h => hp y h hy
      have h2 : ¬ p y = true := by rw [hq y List.mem_cons_self hy]; simp
      rw [if_neg h1, if_neg h2]; exact ih'
    · rw [shut_of_ne l o y hy]
      split
      · rw [List.map_cons, List.map_cons, ih']
      · exact ih'

theorem Abs.shutdown_cases (a : Abs) (l n : Nat) :
    a.shutdown l n = a ∨
    ∃ c ∈ a.conns, c.label = l ∧ c.done = false ∧
      a.shutdown l n =
        { a with conns := a.conns.map (CoreC.shut l (!a.closed && c.epoch == a.epoch)),
                 index := if (!a.closed && c.epoch == a.epoch) then a.index.filter (· != l) else a.index,
                 events := a.events ++ (if a.cfg.subscriptions && (!a.closed && c.epoch == a.epoch)
                                        then c.sels.map (fun s => (l, s, false)) else []),
                 uuid := n } := by
  unfold Abs.shutdown
  cases hf : a.conns.find? (·.label == l) with
  | none => exact Or.inl rfl
  | some c =>
    by_cases hd : c.done = true
    · simp only [hd, ↓reduceIte]; exact Or.inl trivial
    · right
      refine ⟨c, List.mem_of_find?_eq_some hf, ?_, by simpa using hd, ?_⟩
      · have := List.find?_some hf; simpa using this
      · simp only [hd, Bool.false_eq_true, ↓reduceIte]

theorem Inv.shutdown {cfg0 : HubCfg} {a : Abs} (h : Inv cfg0 a) (l n : Nat) (hn : a.uuid ≤ n) :
    Inv cfg0 (a.shutdown l n) := by
  rcases Abs.shutdown_cases a l n with heq | ⟨c, hc, hcl, hcd, heq⟩
  · rw [heq]; exact h
  rw [heq]
  generalize ho : (!a.closed && c.epoch == a.epoch) = o
  have hlab : (a.conns.map (CoreC.shut l o)).map (·.label) = a.conns.map (·.label) := by
    rw [List.map_map]; apply List.map_congr_left; intro y _; exact shut_label l o y
  have hmem : ∀ x ∈ a.conns.map (CoreC.shut l o), ∃ y ∈ a.conns, x = CoreC.shut l o y := by
    intro x hx
    obtain ⟨y, hy, hyx⟩ := List.mem_map.1 hx
    exact ⟨y, hy, hyx.symm⟩
  have hcso : c.shutdownOpen = false := by
    cases hh : c.shutdownOpen
    · rfl
    · have := h.so_done c hc hh; rw [hcd] at this; cases this
  -- the labels in use are unchanged
  have hlabs : ∀ (idx : List Nat) (ev : List (Nat × Str × Bool)),
      ({ a with conns := a.conns.map (CoreC.shut l o), index := idx, events := ev, uuid := n } : Abs).labs = a.labs := by
    intro idx ev
    show (a.conns.map (CoreC.shut l o)).map (·.label) ++ a.failed.map (·.1) = _
    rw [hlab]; rfl
  refine { cfg := h.cfg, so_done := ?_, ev_labels := ?_, ev_off := ?_, epoch_le := ?_, sids := ?_,
           idx_sub := ?_, index := ?_, ev_start := ?_, ev_end := ?_, ev_fail := ?_ }
  · intro x hx hxo
    obtain ⟨y, hy, rfl⟩ := hmem x hx
    by_cases hyl : y.label = l
    · rw [shut_of_eq l o y hyl]
    · rw [shut_of_ne l o y hyl] at hxo ⊢; exact h.so_done y hy hxo
  · intro e hee
    have hee' : e ∈ a.events ++ (if a.cfg.subscriptions && o then c.sels.map (fun s => (l, s, false)) else []) := hee
    rcases List.mem_append.1 hee' with he1 | he2
    · rcases h.ev_labels e he1 with ⟨y, hy, hye⟩ | hf
      · exact Or.inl ⟨CoreC.shut l o y, List.mem_map.2 ⟨y, hy, rfl⟩, by rw [shut_label]; exact hye⟩
      · exact Or.inr hf
    · refine Or.inl ⟨CoreC.shut l o c, List.mem_map.2 ⟨c, hc, rfl⟩, ?_⟩
      rw [shut_label, hcl]
      split at he2
      · obtain ⟨s, _, hse⟩ := List.mem_map.1 he2
        rw [← hse]
      · cases he2
  · intro hoff
    have hoff' : a.cfg.subscriptions = false := hoff
    show a.events ++ (if a.cfg.subscriptions && o then c.sels.map (fun s => (l, s, false)) else []) = []
    rw [h.ev_off hoff', hoff']; rfl
  · intro x hx
    obtain ⟨y, hy, rfl⟩ := hmem x hx
    rw [shut_epoch]; exact h.epoch_le y hy
  · obtain ⟨ns, h1, h2, h3⟩ := h.sids
    refine ⟨ns, ?_, h2, fun m hm => Nat.lt_of_lt_of_le (h3 m hm) hn⟩
    rw [← h1]
    show (a.conns.map (CoreC.shut l o)).map (·.sid) = _
    rw [List.map_map]; apply List.map_congr_left; intro y _; exact shut_sid l o y
  · intro x hx
    have hx' : x ∈ (if o = true then a.index.filter (· != l) else a.index) := hx
    have hx'' : x ∈ a.index := by
      cases o
      · exact hx'
      · exact (List.mem_filter.1 hx').1
    obtain ⟨y, hy, hyx⟩ := h.idx_sub x hx''
    exact ⟨CoreC.shut l o y, List.mem_map.2 ⟨y, hy, rfl⟩, by rw [shut_label]; exact hyx⟩
  · intro hnd hclosed
    have hnd'' : a.labs.Nodup := by rw [← hlabs]; exact hnd
    have hnd' : (a.conns.map (·.label)).Nodup := labs_nodup_conns hnd''
    have hclosed' : a.closed = false := hclosed
    have hidx := h.index hnd'' hclosed'
    show (if o = true then a.index.filter (· != l) else a.index) =
      ((a.conns.map (CoreC.shut l o)).filter (fun x => !x.done && x.epoch == a.epoch)).map (·.label)
    cases o with
    | true =>
      rw [if_pos rfl, shut_filter_open, ← hidx]
    | false =>
      rw [if_neg (by simp)]
      rw [shut_filter_other l false (fun x => !x.done && x.epoch == a.epoch) a.conns, ← hidx]
      · intro y hp hyl
        rw [shut_of_eq l false y hyl] at hp
        simp at hp
      · intro y hy hyl
        have : y = c := eq_of_map_nodup (·.label) hnd' hy hc (by rw [hyl, hcl])
        rw [this]
        rw [hclosed'] at ho
        simp at ho
        simp [ho]
  · intro hnd hsub x hx
    have hnd'' : a.labs.Nodup := by rw [← hlabs]; exact hnd
    have hnd' : (a.conns.map (·.label)).Nodup := labs_nodup_conns hnd''
    have hsub' : a.cfg.subscriptions = true := hsub
    obtain ⟨y, hy, rfl⟩ := hmem x hx
    show aevs (a.events ++ (if a.cfg.subscriptions && o then c.sels.map (fun s => (l, s, false)) else []))
      (CoreC.shut l o y).label true = (CoreC.shut l o y).sels
    rw [shut_label, shut_sels, aevs_append, h.ev_start hnd'' hsub' y hy]
    split
    · rw [aevs_map_sels]; simp
    · simp [aevs]
  · intro hnd hsub x hx
    have hnd'' : a.labs.Nodup := by rw [← hlabs]; exact hnd
    have hnd' : (a.conns.map (·.label)).Nodup := labs_nodup_conns hnd''
    have hsub' : a.cfg.subscriptions = true := hsub
    obtain ⟨y, hy, rfl⟩ := hmem x hx
    show aevs (a.events ++ (if a.cfg.subscriptions && o then c.sels.map (fun s => (l, s, false)) else []))
      (CoreC.shut l o y).label false = if (CoreC.shut l o y).shutdownOpen then (CoreC.shut l o y).sels else []
    rw [shut_label, shut_sels, aevs_append, h.ev_end hnd'' hsub' y hy, hsub', Bool.true_and]
    by_cases hyl : y.label = l
    · have : y = c := eq_of_map_nodup (·.label) hnd' hy hc (by rw [hyl, hcl])
      rw [this, shut_of_eq l o c hcl, hcso]
      cases o
      · simp [aevs]
      · simp [aevs_map_sels, hcl]
    · rw [shut_of_ne l o y hyl]
      have hne : ¬ l = y.label := fun e => hyl e.symm
      cases o
      · simp [aevs]
      · simp [aevs_map_sels, hne]
  · intro hnd hsub f hf
    have hnd'' : a.labs.Nodup := by rw [← hlabs]; exact hnd
    have hsub' : a.cfg.subscriptions = true := hsub
    have hf' : f ∈ a.failed := hf
    have hne : ¬ l = f.1 := fun e => labs_nodup_disj hnd'' c hc f hf' (hcl.trans e)
    obtain ⟨e1, e2⟩ := h.ev_fail hnd'' hsub' f hf'
    show aevs (a.events ++ (if a.cfg.subscriptions && o then c.sels.map (fun s => (l, s, false)) else [])) f.1 true = _ ∧
         aevs (a.events ++ (if a.cfg.subscriptions && o then c.sels.map (fun s => (l, s, false)) else [])) f.1 false = _
    have hz : ∀ b, aevs (if (a.cfg.subscriptions && o) = true then c.sels.map (fun s => (l, s, false)) else [])
        f.1 b = [] := by
      intro b
      split
      · rw [aevs_map_sels]; simp [hne]
      · rfl
    rw [aevs_append, aevs_append, e1, e2, hz, hz, List.append_nil]
    exact ⟨rfl, rfl⟩

/-! ### reachable states satisfy the invariant -/

theorem Gen.inv {cfg0 : HubCfg} {L : List Nat} {a b : Abs} (g : Gen L a b) (h : Inv cfg0 a) : Inv cfg0 b := by
  induction g with
  | refl a => exact h
  | bump n hn _ ih => exact ih (h.bump n hn)
  | shutdown l n hn _ ih => exact ih (h.shutdown l n hn)
  | connect c n hc hs hn he hd ho _ ih => exact ih (h.connect c n hc hs hn he hd ho)
  | fail l sels n hn _ ih => exact ih (h.fail l sels n hn)
  | close _ ih => exact ih h.close
  | restart _ ih => exact ih h.restart

theorem Abs.shutdown_labels (a : Abs) (l n : Nat) :
    (a.shutdown l n).conns.map (·.label) = a.conns.map (·.label) := by
  rcases Abs.shutdown_cases a l n with heq | ⟨c, _, _, _, heq⟩
  · rw [heq]
  · rw [heq]
    show (a.conns.map (CoreC.shut l _)).map (·.label) = _
    rw [List.map_map]; apply List.map_congr_left; intro y _; exact shut_label l _ y

theorem Abs.shutdown_failed (a : Abs) (l n : Nat) : (a.shutdown l n).failed = a.failed := by
  rcases Abs.shutdown_cases a l n with heq | ⟨c, _, _, _, heq⟩ <;> rw [heq]

theorem Abs.shutdown_labs (a : Abs) (l n : Nat) : (a.shutdown l n).labs = a.labs := by
  unfold Abs.labs; rw [Abs.shutdown_labels, Abs.shutdown_failed]

/-- The labels in use after the steps: those before and those the steps used (up to order). -/
theorem Gen.labels {L : List Nat} {a b : Abs} (g : Gen L a b) : b.labs.Perm (a.labs ++ L) := by
  induction g with
  | refl a => simp
  | bump n hn _ ih => exact ih
  | @shutdown L a b l n hn _ ih => rw [Abs.shutdown_labs a l n] at ih; exact ih
  | @connect L a b c n hc hs hn he hd ho _ ih =>
    refine ih.trans ?_
    have e : (a.connect c n).labs = a.conns.map (·.label) ++ c.label :: a.failed.map (·.1) := by
      show (a.conns ++ [c]).map (·.label) ++ a.failed.map (·.1) = _
      simp
    rw [e]
    show (a.conns.map (·.label) ++ c.label :: a.failed.map (·.1) ++ L).Perm
      (a.conns.map (·.label) ++ a.failed.map (·.1) ++ c.label :: L)
    exact ((List.perm_middle.append_right L).trans (List.perm_middle (l₁ := a.labs) (l₂ := L)).symm)
  | @fail L a b l sels n hn _ ih =>
    refine ih.trans ?_
    have e : (a.fail l sels n).labs ++ L = a.labs ++ l :: L := by
      show a.conns.map (·.label) ++ (a.failed ++ [(l, sels, !a.closed)]).map (·.1) ++ L = _
      simp [Abs.labs]
    rw [e]
  | close _ ih => exact ih
  | restart _ ih => exact ih

theorem init_inv (cfg : HubCfg) (kind : Kind) (size cap : Nat) : Inv cfg (HubSt.init cfg kind size cap).abs where
  cfg := rfl
  so_done := fun c hc => by cases hc
  ev_labels := fun e he => by cases he
  ev_off := fun _ => rfl
  epoch_le := fun c hc => by cases hc
  sids := ⟨[], rfl, List.Pairwise.nil, fun n hn => by cases hn⟩
  idx_sub := fun l hl => by cases hl
  index := fun _ _ => rfl
  ev_start := fun _ _ c hc => by cases hc
  ev_end := fun _ _ c hc => by cases hc
  ev_fail := fun _ _ f hf => by cases hf

theorem reach_gen (ops : List HubOp) :
    ∃ L, L.Sublist (ops.filterMap HubOp.connectLabel) ∧
      Gen L (HubSt.init cfg kind size cap).abs (HubSt.reach M tokP tokS cfg kind size cap ops).abs :=
  Gen.of_run M tokP tokS ops (HubSt.init cfg kind size cap)

theorem reach_inv (ops : List HubOp) : Inv cfg (HubSt.reach M tokP tokS cfg kind size cap ops).abs := by
  obtain ⟨L, _, g⟩ := reach_gen M tokP tokS cfg kind size cap ops
  exact g.inv (init_inv cfg kind size cap)

/-- With fresh labels, the labels of the connections and of the failed registrations are pairwise distinct. -/
theorem reach_labels_nodup (ops : List HubOp) (hf : FreshLabels ops) :
    (HubSt.reach M tokP tokS cfg kind size cap ops).abs.labs.Nodup := by
  obtain ⟨L, hs, g⟩ := reach_gen M tokP tokS cfg kind size cap ops
  rw [g.labels.nodup_iff]
  show ([] ++ L).Nodup
  rw [List.nil_append]
  exact List.Nodup.sublist hs hf

/-! ### uuidOf is injective below 16^12 -/

theorem hexDigitLower_inj : ∀ i, i < 16 → ∀ j, j < 16 → hexDigitLower i = hexDigitLower j → i = j := by
  decide +kernel

theorem hexFixed_length (w : Nat) : ∀ n, (hexFixed w n).length = w := by
  induction w with
  | zero => intro n; rfl
  | succ w ih => intro n; rw [hexFixed, List.length_append, ih]; rfl

theorem hexFixed_inj (w : Nat) : ∀ n m, n < 16 ^ w → m < 16 ^ w → hexFixed w n = hexFixed w m → n = m := by
  induction w with
  | zero => intro n m hn hm _; simp at hn hm; omega
  | succ w ih =>
    intro n m hn hm h
    rw [hexFixed, hexFixed] at h
    have hl : (hexFixed w (n / 16)).length = (hexFixed w (m / 16)).length := by
      rw [hexFixed_length, hexFixed_length]
    obtain ⟨h1, h2⟩ := List.append_inj h hl
    rw [Nat.pow_succ] at hn hm
    have e1 := ih (n / 16) (m / 16) (Nat.div_lt_of_lt_mul (by omega)) (Nat.div_lt_of_lt_mul (by omega)) h1
    have e2 := hexDigitLower_inj (n % 16) (Nat.mod_lt _ (by decide)) (m % 16) (Nat.mod_lt _ (by decide))
      (List.cons.inj h2).1
    omega

theorem uuidOf_inj {n m : Nat} (hn : n < 16 ^ 12) (hm : m < 16 ^ 12) (h : uuidOf n = uuidOf m) : n = m := by
  unfold uuidOf at h
  exact hexFixed_inj 12 n m hn hm (List.append_cancel_left h)

theorem nodup_map_uuidOf (ns : List Nat) (hp : ns.Pairwise (· < ·)) (hb : ∀ n ∈ ns, n < 16 ^ 12) :
    (ns.map uuidOf).Nodup := by
  induction ns with
  | nil => exact List.nodup_nil
  | cons x xs ih =>
    rw [List.pairwise_cons] at hp
    rw [List.map_cons, List.nodup_cons]
    refine ⟨?_, ih hp.2 (fun n hn => hb n (List.mem_cons_of_mem _ hn))⟩
    intro hmem
    obtain ⟨y, hy, hyx⟩ := List.mem_map.1 hmem
    have := uuidOf_inj (hb y (List.mem_cons_of_mem _ hy)) (hb x List.mem_cons_self) hyx
    have := hp.1 y hy
    omega

/-! ### the statements -/

theorem reach_tracking_off (ops : List HubOp) (h : cfg.subscriptions = false) :
    (HubSt.reach M tokP tokS cfg kind size cap ops).events = [] := by
  have hi := reach_inv M tokP tokS cfg kind size cap ops
  exact hi.ev_off (by rw [hi.cfg]; exact h)

theorem reach_cfg (ops : List HubOp) : (HubSt.reach M tokP tokS cfg kind size cap ops).cfg = cfg :=
  (reach_inv M tokP tokS cfg kind size cap ops).cfg

theorem reach_events_start (ops : List HubOp) (hf : FreshLabels ops) (h : cfg.subscriptions = true) :
    ∀ c ∈ (HubSt.reach M tokP tokS cfg kind size cap ops).conns,
      evs (HubSt.reach M tokP tokS cfg kind size cap ops) c.label true = c.sels := by
  intro c hc
  have hi := reach_inv M tokP tokS cfg kind size cap ops
  exact hi.ev_start (reach_labels_nodup M tokP tokS cfg kind size cap ops hf) (by rw [hi.cfg]; exact h)
    c.core (List.mem_map.2 ⟨c, hc, rfl⟩)

theorem reach_events_end (ops : List HubOp) (hf : FreshLabels ops) (h : cfg.subscriptions = true) :
    ∀ c ∈ (HubSt.reach M tokP tokS cfg kind size cap ops).conns,
      evs (HubSt.reach M tokP tokS cfg kind size cap ops) c.label false = (if c.shutdownOpen then c.sels else []) := by
  intro c hc
  have hi := reach_inv M tokP tokS cfg kind size cap ops
  exact hi.ev_end (reach_labels_nodup M tokP tokS cfg kind size cap ops hf) (by rw [hi.cfg]; exact h)
    c.core (List.mem_map.2 ⟨c, hc, rfl⟩)

theorem reach_shutdownOpen_done (ops : List HubOp) :
    ∀ c ∈ (HubSt.reach M tokP tokS cfg kind size cap ops).conns, c.shutdownOpen = true → c.done = true := by
  intro c hc hso
  exact (reach_inv M tokP tokS cfg kind size cap ops).so_done c.core (List.mem_map.2 ⟨c, hc, rfl⟩) hso

/-- Events only ever concern accepted connections or registrations that failed half-way. -/
theorem reach_events_labels (ops : List HubOp) :
    ∀ e ∈ (HubSt.reach M tokP tokS cfg kind size cap ops).events,
      (∃ c ∈ (HubSt.reach M tokP tokS cfg kind size cap ops).conns, c.label = e.1) ∨
      (∃ f ∈ (HubSt.reach M tokP tokS cfg kind size cap ops).failed, f.1 = e.1) := by
  intro e he
  rcases (reach_inv M tokP tokS cfg kind size cap ops).ev_labels e he with ⟨x, hx, hxe⟩ | hf
  · obtain ⟨c, hc, hcx⟩ := List.mem_map.1 hx
    exact Or.inl ⟨c, hc, by rw [← hxe, ← hcx]; rfl⟩
  · exact Or.inr hf

/-- A registration that failed half-way was announced exactly once per selector with `active=true`
    and exactly once with `active=false` when the hub was open, not at all when it was closed. -/
theorem reach_failed_events (ops : List HubOp) (hf : FreshLabels ops) (h : cfg.subscriptions = true) :
    ∀ f ∈ (HubSt.reach M tokP tokS cfg kind size cap ops).failed,
      evs (HubSt.reach M tokP tokS cfg kind size cap ops) f.1 true = (if f.2.2 then f.2.1 else []) ∧
      evs (HubSt.reach M tokP tokS cfg kind size cap ops) f.1 false = (if f.2.2 then f.2.1 else []) := by
  intro f hfm
  have hi := reach_inv M tokP tokS cfg kind size cap ops
  exact hi.ev_fail (reach_labels_nodup M tokP tokS cfg kind size cap ops hf) (by rw [hi.cfg]; exact h) f hfm

/-- A failed registration is neither a connection nor in the transport's subscriber list. -/
theorem reach_failed_not_indexed (ops : List HubOp) (hf : FreshLabels ops) :
    ∀ f ∈ (HubSt.reach M tokP tokS cfg kind size cap ops).failed,
      f.1 ∉ (HubSt.reach M tokP tokS cfg kind size cap ops).index ∧
      ∀ c ∈ (HubSt.reach M tokP tokS cfg kind size cap ops).conns, c.label ≠ f.1 := by
  intro f hfm
  have hi := reach_inv M tokP tokS cfg kind size cap ops
  have hnd := reach_labels_nodup M tokP tokS cfg kind size cap ops hf
  have hdisj : ∀ c ∈ (HubSt.reach M tokP tokS cfg kind size cap ops).conns, c.label ≠ f.1 := fun c hc =>
    labs_nodup_disj hnd c.core (List.mem_map.2 ⟨c, hc, rfl⟩) f hfm
  refine ⟨?_, hdisj⟩
  intro hidx
  obtain ⟨x, hx, hxl⟩ := hi.idx_sub f.1 hidx
  obtain ⟨c, hc, hcx⟩ := List.mem_map.1 hx
  exact hdisj c hc (by rw [← hxl, ← hcx]; rfl)

/-! ### escaping -/

theorem unhex_hexUpper : ∀ n, n < 16 → unhexByte (hexDigitUpper n) = some n := by decide +kernel

theorem unreserved_facts : ∀ x, x < 256 → isUnreservedByte x = true →
    (Char.ofNat x ≠ '%' ∧ Char.ofNat x ≠ '+' ∧ (Char.ofNat x).toNat = x ∧ x < 128) := by
  decide +kernel

theorem queryUnescapeBytes_other (c : Char) (rest : Str) (h1 : c ≠ '%') (h2 : c ≠ '+') :
    queryUnescapeBytes (c :: rest) = (queryUnescapeBytes rest).map (c.toNat :: ·) := by
  rw [queryUnescapeBytes]
  · intro _ _ _ hc; exact absurd hc h1
  · intro hc; exact absurd hc h1
  · intro hc; exact absurd hc h2

theorem pctEncoded_other (c : Char) (rest : Str) (h1 : c ≠ '%') :
    pctEncoded (c :: rest) = (isUnreservedByte c.toNat && decide (c.toNat < 128) && pctEncoded rest) := by
  rw [pctEncoded]
  · intro _ _ _ hc; exact absurd hc h1
  · intro hc; exact absurd hc h1

theorem queryEscapeBytes_cons (b : Bool) (x : Nat) (xs : List Nat) :
    queryEscapeBytes b (x :: xs) = escapeByte b x ++ queryEscapeBytes b xs := by
  simp [queryEscapeBytes]

theorem queryUnescape_escape (b : Bool) (bs : List Nat) (h : ∀ x ∈ bs, x < 256) :
    queryUnescapeBytes (queryEscapeBytes b bs) = some bs := by
  induction bs with
  | nil => rfl
  | cons x xs ih =>
    have hx : x < 256 := h x List.mem_cons_self
    have ih' := ih (fun y hy => h y (List.mem_cons_of_mem _ hy))
    rw [queryEscapeBytes_cons]
    unfold escapeByte
    by_cases hu : isUnreservedByte x = true
    · obtain ⟨h1, h2, h3, _⟩ := unreserved_facts x hx hu
      simp only [hu, ↓reduceIte, List.cons_append, List.nil_append]
      rw [queryUnescapeBytes_other _ _ h1 h2, ih', h3]; rfl
    · simp only [hu, Bool.false_eq_true, ↓reduceIte]
      by_cases hs : (x == 32 && b) = true
      · simp only [hs, ↓reduceIte, List.cons_append, List.nil_append]
        have : x = 32 := by simp at hs; exact hs.1
        rw [queryUnescapeBytes, ih', this]; rfl
      · simp only [hs, Bool.false_eq_true, ↓reduceIte, List.cons_append, List.nil_append]
        rw [queryUnescapeBytes, unhex_hexUpper _ (by omega), unhex_hexUpper _ (by omega), ih']
        simp only [Option.some.injEq, List.cons.injEq, and_true]
        omega

theorem queryEscape_pctEncoded (bs : List Nat) (h : ∀ x ∈ bs, x < 256) :
    pctEncoded (queryEscapeBytes false bs) = true := by
  induction bs with
  | nil => rfl
  | cons x xs ih =>
    have hx : x < 256 := h x List.mem_cons_self
    have ih' := ih (fun y hy => h y (List.mem_cons_of_mem _ hy))
    rw [queryEscapeBytes_cons]
    unfold escapeByte
    by_cases hu : isUnreservedByte x = true
    · obtain ⟨h1, _, h3, h4⟩ := unreserved_facts x hx hu
      simp only [hu, ↓reduceIte, List.cons_append, List.nil_append]
      rw [pctEncoded_other _ _ h1, ih', h3, hu]
      simp [h4]
    · simp only [hu, Bool.false_eq_true, ↓reduceIte, Bool.and_false, List.cons_append, List.nil_append]
      rw [pctEncoded, unhex_hexUpper _ (by omega), unhex_hexUpper _ (by omega), ih']
      rfl

/-! ### C18 -/

theorem mem_subDocsOf {cfg : HubCfg} {c : Conn} {topic : Str} {active : Bool} {d : Subscription} :
    d ∈ subDocsOf cfg M c topic active ↔
      ∃ t ∈ c.sels, (topic = [] ∨ (matchTopics M c.sels c.allowed [topic] false = true ∧ t = topic)) ∧
        d = { id := subscriptionId cfg.spacePlus t c.sid, subscriber := c.sid, topic := t,
              active := active, payload := c.payload } := by
  unfold subDocsOf getSubscriptions
  simp only [List.mem_map, List.mem_filter]
  constructor
  · rintro ⟨t, ⟨ht, hp⟩, rfl⟩
    refine ⟨t, ht, ?_, rfl⟩
    by_cases h0 : topic = []
    · exact Or.inl h0
    · right
      simp [h0] at hp
      exact hp
  · rintro ⟨t, ht, hp, rfl⟩
    refine ⟨t, ⟨ht, ?_⟩, rfl⟩
    rcases hp with h0 | ⟨h1, h2⟩
    · simp [h0]
    · simp [h1, h2]

theorem eq_of_sid_eq {conns : List Conn} (hu : (conns.map (·.sid)).Nodup) {c c' : Conn}
    (hc : c ∈ conns) (hc' : c' ∈ conns) (h : c.sid = c'.sid) : c = c' := by
  induction conns with
  | nil => cases hc
  | cons x xs ih =>
    rw [List.map_cons, List.nodup_cons] at hu
    rcases List.mem_cons.1 hc with h1 | hc1 <;> rcases List.mem_cons.1 hc' with h2 | hc2
    · rw [h1, h2]
    · subst h1; exact absurd (List.mem_map.2 ⟨c', hc2, h.symm⟩) hu.1
    · subst h2; exact absurd (List.mem_map.2 ⟨c, hc1, h⟩) hu.1
    · exact ih hu.2 hc1 hc2

theorem reach_index_connected (ops : List HubOp) (hf : FreshLabels ops) :
    let st := HubSt.reach M tokP tokS cfg kind size cap ops
    st.closed = false → st.index = (st.conns.filter (fun c => !c.done && c.epoch == st.epoch)).map (·.label) := by
  intro st hcl
  have hi := reach_inv M tokP tokS cfg kind size cap ops
  have := hi.index (reach_labels_nodup M tokP tokS cfg kind size cap ops hf) hcl
  show st.abs.index = _
  rw [this]
  show ((st.conns.map Conn.core).filter _).map _ = _
  rw [List.filter_map, List.map_map]
  rfl

theorem reach_sids_unique (ops : List HubOp)
    (hb : (HubSt.reach M tokP tokS cfg kind size cap ops).uuid ≤ 16 ^ 12) :
    ((HubSt.reach M tokP tokS cfg kind size cap ops).conns.map (·.sid)).Nodup := by
  obtain ⟨ns, h1, h2, h3⟩ := (reach_inv M tokP tokS cfg kind size cap ops).sids
  have e : (HubSt.reach M tokP tokS cfg kind size cap ops).conns.map (·.sid) =
      (HubSt.reach M tokP tokS cfg kind size cap ops).abs.conns.map (·.sid) := by
    show _ = (List.map Conn.core _).map _
    rw [List.map_map]; rfl
  rw [e, h1]
  exact nodup_map_uuidOf ns h2 (fun n hn => Nat.lt_of_lt_of_le (h3 n hn) hb)

end Mercure
