import Mercure.Model.Sys
/-
  Lemmas for C13 / C14 / C15 over the region-level model (`Mercure.Sys`), repaired flags.
  Put helper lemmas in this namespace only.
-/
namespace Mercure.Sys.Safety
open Mercure.Sys

/-! ### basic frame lemmas -/

@[simp] theorem setThread_tr (σ : Sys) (i f) : (setThread σ i f).tr = σ.tr := rfl

@[simp] theorem setThread_subs (σ : Sys) (i f) : (setThread σ i f).subs = σ.subs := rfl

@[simp] theorem setThread_flags (σ : Sys) (i f) : (setThread σ i f).flags = σ.flags := rfl

@[simp] theorem setThread_panic (σ : Sys) (i f) : (setThread σ i f).panic = σ.panic := rfl

@[simp] theorem setTr_tr (σ : Sys) (f) : (setTr σ f).tr = f σ.tr := rfl

@[simp] theorem setTr_subs (σ : Sys) (f) : (setTr σ f).subs = σ.subs := rfl

@[simp] theorem setTr_threads (σ : Sys) (f) : (setTr σ f).threads = σ.threads := rfl

@[simp] theorem setTr_flags (σ : Sys) (f) : (setTr σ f).flags = σ.flags := rfl

@[simp] theorem setTr_panic (σ : Sys) (f) : (setTr σ f).panic = σ.panic := rfl

@[simp] theorem setSub_tr (σ : Sys) (s f) : (setSub σ s f).tr = σ.tr := rfl

@[simp] theorem setSub_threads (σ : Sys) (s f) : (setSub σ s f).threads = σ.threads := rfl

@[simp] theorem setSub_flags (σ : Sys) (s f) : (setSub σ s f).flags = σ.flags := rfl

@[simp] theorem setSub_panic (σ : Sys) (s f) : (setSub σ s f).panic = σ.panic := rfl

theorem setThread_get (σ : Sys) (i j : Nat) (f : Thread → Thread) :
    (setThread σ i f).threads[j]? = if j = i then σ.threads[j]?.map f else σ.threads[j]? := by
  unfold setThread
  simp only [List.getElem?_map, List.getElem?_zipIdx]
  cases h : σ.threads[j]? with
  | none => simp
  | some t =>
    by_cases hj : j = i
    · subst hj; simp
    · simp [hj]

/-! ### subscriber access -/

def gs (subs : List Sub) (s : Nat) : Sub := subs.getD s { topics := [] }

theorem getSub_eq (σ : Sys) (s : Nat) : getSub σ s = gs σ.subs s := rfl

@[simp] theorem setSub_length (σ : Sys) (s : Nat) (f : Sub → Sub) : (setSub σ s f).subs.length = σ.subs.length := by
  simp [setSub]

theorem gs_setSub (σ : Sys) (s s' : Nat) (f : Sub → Sub) :
    gs (setSub σ s f).subs s' = if s' = s ∧ s < σ.subs.length then f (gs σ.subs s') else gs σ.subs s' := by
  unfold gs setSub
  simp only [List.getD_eq_getElem?_getD, List.getElem?_map, List.getElem?_zipIdx]
  by_cases hs : s' < σ.subs.length
  · rw [List.getElem?_eq_getElem hs]
    by_cases he : s' = s
    · subst he; simp [hs]
    · simp [he]
  · rw [List.getElem?_eq_none (by omega)]
    have : ¬ (s' = s ∧ s < σ.subs.length) := by omega
    simp [this]

theorem gs_setSub_self (σ : Sys) (s : Nat) (f : Sub → Sub) (hs : s < σ.subs.length) :
    gs (setSub σ s f).subs s = f (gs σ.subs s) := by
  rw [gs_setSub]; simp [hs]

theorem gs_setSub_ne (σ : Sys) (s s' : Nat) (f : Sub → Sub) (h : s' ≠ s) :
    gs (setSub σ s f).subs s' = gs σ.subs s' := by
  rw [gs_setSub]; simp [h]

theorem gs_oob (subs : List Sub) (s : Nat) (h : subs.length ≤ s) : gs subs s = { topics := [] } := by
  unfold gs
  rw [List.getD_eq_getElem?_getD, List.getElem?_eq_none h]; rfl

/-- the part of a subscriber the safety invariant looks at -/

def vw (b : Sub) : Bool × Bool × Option Nat := (b.disconnected, b.outClosed, b.outOwner)

theorem vw_eq {b b' : Sub} (h : vw b' = vw b) :
    b'.disconnected = b.disconnected ∧ b'.outClosed = b.outClosed ∧ b'.outOwner = b.outOwner := by
  simpa [vw] using h

/-! ### the invariant -/

def isSub : Frame → Bool
  | .sDispatch .. | .sReady .. | .sDisconnect .. => true
  | _ => false

def cur : Frame → Option Nat
  | .sDisconnect s _ => some s
  | _ => none

def Owns : List Frame → Nat → Prop
  | .sDispatch s' _ _ pc :: _, s => s' = s ∧ 4 ≤ pc
  | .sReady s' pc _ :: _, s => s' = s ∧ 2 ≤ pc
  | .sDisconnect s' pc :: _, s => s' = s ∧ 2 ≤ pc
  | _, _ => False

def adminTop : List Frame → Bool
  | .tDispatch _ 9 _ :: _ => true
  | .tAdd _ 8 _ _ _ :: _ => true
  | .tAdd _ 7 _ _ _ :: _ => true
  | .tClose 9 _ :: _ => true
  | _ => false

def RegD (pc : Nat) (b : Sub) (j : Nat) : Prop :=
  (4 ≤ pc → b.outOwner = some j) ∧ (pc = 4 → b.disconnected = b.outClosed) ∧
  (pc = 5 ∨ pc = 6 → b.disconnected = false ∧ b.outClosed = false) ∧
  (7 ≤ pc → b.disconnected = true ∧ b.outClosed = false)

def RegR (pc : Nat) (b : Sub) (j : Nat) : Prop :=
  (2 ≤ pc → b.outOwner = some j) ∧ (pc = 2 → b.disconnected = b.outClosed) ∧
  (pc = 3 ∨ pc = 4 ∨ 6 ≤ pc → b.disconnected = false ∧ b.outClosed = false) ∧
  (pc = 5 → b.disconnected = true ∧ b.outClosed = false)

def RegX (pc : Nat) (b : Sub) (j : Nat) : Prop :=
  (2 ≤ pc → b.outOwner = some j) ∧ (pc = 2 → b.disconnected = b.outClosed) ∧
  (pc = 3 → b.disconnected = false ∧ b.outClosed = false) ∧
  (4 ≤ pc → b.disconnected = true ∧ b.outClosed = false)

def FrameOK (subs : List Sub) (tr : Tr) (j : Nat) (c : Option Nat) : Frame → Prop
  | .sDispatch s _ _ pc => s < subs.length ∧ RegD pc (gs subs s) j
  | .sReady s pc _ => s < subs.length ∧ RegR pc (gs subs s) j
  | .sDisconnect s pc => s < subs.length ∧ RegX pc (gs subs s) j
  | .tAdd s _ _ _ _ => s < subs.length
  | .uRecv s => s < subs.length
  | .tDispatch _ _ rs => ∀ s ∈ rs, s < subs.length
  | .tClose pc todo =>
    (1 ≤ pc → tr.onceRunning = some j ∧ tr.onceDone = false) ∧ (∀ s ∈ todo, s < subs.length) ∧
    (4 ≤ pc → ∀ s' ∈ tr.walked, s' ∈ todo ∨ some s' = c ∨ (gs subs s').disconnected = true) ∧
    (pc ≠ 9 → todo = [])
  | .tRemove _ _ => True
  | .tList => True

def TOK (subs : List Sub) (tr : Tr) (j : Nat) : List Frame → Prop
  | [] => True
  | [f] => FrameOK subs tr j none f
  | [f, g] => isSub f = true ∧ isSub g = false ∧ FrameOK subs tr j none f ∧ FrameOK subs tr j (cur f) g
  | _ => False

def SubOK (σ : Sys) (s : Nat) : Prop :=
  ((gs σ.subs s).outClosed = true → (gs σ.subs s).disconnected = true) ∧
  ((gs σ.subs s).outOwner = none → (gs σ.subs s).disconnected = (gs σ.subs s).outClosed) ∧
  (∀ k, (gs σ.subs s).outOwner = some k → ∃ th, σ.threads[k]? = some th ∧ Owns th.stack s)

structure InvW (σ : Sys) : Prop where
  flags : σ.flags = Flags.repaired
  panic : σ.panic = none
  thr : ∀ (j : Nat) (th : Thread), σ.threads[j]? = some th → TOK σ.subs σ.tr j th.stack
  sub : ∀ s, s < σ.subs.length → SubOK σ s
  idx : ∀ s ∈ σ.tr.index, s < σ.subs.length
  done : σ.tr.onceDone = true → ∀ s ∈ σ.tr.walked, (gs σ.subs s).disconnected = true

def Norm (σ : Sys) : Prop := ∀ (j : Nat) (th : Thread), σ.threads[j]? = some th → adminTop th.stack = false

/-! ### stability of a thread's invariant under another thread's step -/

theorem RegD_stab {pc j} {b b' : Sub} (h : RegD pc b j) (hv : b.outOwner = some j → vw b' = vw b) : RegD pc b' j := by
  unfold RegD at *
  by_cases hp : 4 ≤ pc
  · obtain ⟨e1, e2, e3⟩ := vw_eq (hv (h.1 hp))
    rw [e1, e2, e3]; exact h
  · refine ⟨?_, ?_, ?_, ?_⟩ <;> intro h' <;> omega

theorem RegR_stab {pc j} {b b' : Sub} (h : RegR pc b j) (hv : b.outOwner = some j → vw b' = vw b) : RegR pc b' j := by
  unfold RegR at *
  by_cases hp : 2 ≤ pc
  · obtain ⟨e1, e2, e3⟩ := vw_eq (hv (h.1 hp))
    rw [e1, e2, e3]; exact h
  · refine ⟨?_, ?_, ?_, ?_⟩ <;> intro h' <;> omega

theorem RegX_stab {pc j} {b b' : Sub} (h : RegX pc b j) (hv : b.outOwner = some j → vw b' = vw b) : RegX pc b' j := by
  unfold RegX at *
  by_cases hp : 2 ≤ pc
  · obtain ⟨e1, e2, e3⟩ := vw_eq (hv (h.1 hp))
    rw [e1, e2, e3]; exact h
  · refine ⟨?_, ?_, ?_, ?_⟩ <;> intro h' <;> omega

theorem FrameOK_stab {subs subs' : List Sub} {tr tr' : Tr} {j : Nat} {c : Option Nat} {f : Frame}
    (h : FrameOK subs tr j c f) (hlen : subs'.length = subs.length)
    (hv : ∀ x, (gs subs x).outOwner = some j → vw (gs subs' x) = vw (gs subs x))
    (hm : ∀ x, (gs subs x).disconnected = true → (gs subs' x).disconnected = true)
    (ho : tr.onceRunning = some j → tr'.onceRunning = tr.onceRunning ∧ tr'.onceDone = tr.onceDone ∧ tr'.walked = tr.walked) :
    FrameOK subs' tr' j c f := by
  cases f with
  | sDispatch s u hist pc => exact ⟨hlen ▸ h.1, RegD_stab h.2 (hv s)⟩
  | sReady s pc q => exact ⟨hlen ▸ h.1, RegR_stab h.2 (hv s)⟩
  | sDisconnect s pc => exact ⟨hlen ▸ h.1, RegX_stab h.2 (hv s)⟩
  | tAdd s pc a b c => unfold FrameOK at *; omega
  | uRecv s => unfold FrameOK at *; omega
  | tDispatch u pc rs => unfold FrameOK at *; rw [hlen]; exact h
  | tRemove s pc => trivial
  | tList => trivial
  | tClose pc todo =>
    obtain ⟨h1, h2, h3, h4⟩ := h
    refine ⟨?_, hlen ▸ h2, ?_, h4⟩
    · intro hp
      obtain ⟨e1, e2, _⟩ := ho (h1 hp).1
      rw [e1, e2]; exact h1 hp
    · intro hp s' hs'
      obtain ⟨_, _, e3⟩ := ho (h1 (by omega)).1
      rw [e3] at hs'
      rcases h3 hp s' hs' with h | h | h
      · exact Or.inl h
      · exact Or.inr (Or.inl h)
      · exact Or.inr (Or.inr (hm _ h))

theorem TOK_stab {subs subs' : List Sub} {tr tr' : Tr} {j : Nat} {st : List Frame}
    (h : TOK subs tr j st) (hlen : subs'.length = subs.length)
    (hv : ∀ x, (gs subs x).outOwner = some j → vw (gs subs' x) = vw (gs subs x))
    (hm : ∀ x, (gs subs x).disconnected = true → (gs subs' x).disconnected = true)
    (ho : tr.onceRunning = some j → tr'.onceRunning = tr.onceRunning ∧ tr'.onceDone = tr.onceDone ∧ tr'.walked = tr.walked) :
    TOK subs' tr' j st := by
  match st, h with
  | [], _ => trivial
  | [f], h => exact FrameOK_stab h hlen hv hm ho
  | [f, g], ⟨h1, h2, h3, h4⟩ => exact ⟨h1, h2, FrameOK_stab h3 hlen hv hm ho, FrameOK_stab h4 hlen hv hm ho⟩

/-! ### the general preservation lemma -/

theorem retOf_stack (stk : List Frame) (t : Thread) (r : Option Ret) (last : Option Bool) :
    (retOf stk t r last).stack = stk := rfl

theorem prim {σ : Sys} (hI : InvW σ) {i : Nat} {th : Thread} {fr : Frame} {rest : List Frame}
    (hth : σ.threads[i]? = some th) (hst : th.stack = fr :: rest)
    (subs' : List Sub) (tr' : Tr) (stk : List Frame) (r : Option Ret) (last : Option Bool) (s : Nat)
    (hlen : subs'.length = σ.subs.length)
    (hoth : ∀ s', s' ≠ s → gs subs' s' = gs σ.subs s')
    (hmono : (gs σ.subs s).disconnected = true → (gs subs' s).disconnected = true)
    (hleg : vw (gs subs' s) = vw (gs σ.subs s) ∨ (gs σ.subs s).outOwner = some i ∨ (gs σ.subs s).outOwner = none)
    (h1 : (gs subs' s).outClosed = true → (gs subs' s).disconnected = true)
    (h4 : (gs subs' s).outOwner = none → (gs subs' s).disconnected = (gs subs' s).outClosed)
    (h5 : ∀ k, (gs subs' s).outOwner = some k → (k = i ∧ Owns stk s) ∨ (k ≠ i ∧ (gs σ.subs s).outOwner = some k))
    (hown : ∀ s', s' ≠ s → Owns (fr :: rest) s' → Owns stk s')
    (honce : ∀ j, j ≠ i → σ.tr.onceRunning = some j →
      tr'.onceRunning = σ.tr.onceRunning ∧ tr'.onceDone = σ.tr.onceDone ∧ tr'.walked = σ.tr.walked)
    (hidx : ∀ x ∈ tr'.index, x < σ.subs.length)
    (hdone : tr'.onceDone = true → ∀ x ∈ tr'.walked, (gs subs' x).disconnected = true)
    (hme : TOK subs' tr' i stk) :
    InvW { σ with subs := subs', tr := tr', threads := (setThread σ i fun t => retOf stk t r last).threads } := by
  have hv : ∀ j, j ≠ i → ∀ x, (gs σ.subs x).outOwner = some j → vw (gs subs' x) = vw (gs σ.subs x) := by
    intro j hj x hx
    by_cases hxs : x = s
    · subst hxs
      rcases hleg with h | h | h
      · exact h
      · rw [h] at hx; exact absurd (Option.some.inj hx).symm hj
      · rw [h] at hx; cases hx
    · rw [hoth x hxs]
  have hm : ∀ x, (gs σ.subs x).disconnected = true → (gs subs' x).disconnected = true := by
    intro x hx
    by_cases hxs : x = s
    · subst hxs; exact hmono hx
    · rw [hoth x hxs]; exact hx
  refine ⟨hI.flags, hI.panic, ?_, ?_, ?_, hdone⟩
  · intro j thj hj
    have hj' : (setThread σ i fun t => retOf stk t r last).threads[j]? = some thj := hj
    rw [setThread_get] at hj'
    by_cases hji : j = i
    · subst hji
      rw [if_pos rfl, hth] at hj'
      have : thj = retOf stk th r last := by simpa using hj'.symm
      subst this
      exact hme
    · rw [if_neg hji] at hj'
      exact TOK_stab (hI.thr j thj hj') hlen (hv j hji) hm (honce j hji)
  · intro s' hs'
    have hs'' : s' < σ.subs.length := hlen ▸ hs'
    by_cases hss : s' = s
    · subst hss
      refine ⟨h1, h4, ?_⟩
      intro k hk
      rcases h5 k hk with ⟨hki, ho⟩ | ⟨hne, hk'⟩
      · subst hki
        refine ⟨retOf stk th r last, ?_, ho⟩
        show (setThread σ k fun t => retOf stk t r last).threads[k]? = _
        rw [setThread_get, if_pos rfl, hth]; rfl
      · obtain ⟨thk, hk1, hk2⟩ := (hI.sub s' hs'').2.2 k hk'
        refine ⟨thk, ?_, hk2⟩
        show (setThread σ i fun t => retOf stk t r last).threads[k]? = _
        rw [setThread_get, if_neg hne]; exact hk1
    · obtain ⟨a, b, c⟩ := hI.sub s' hs''
      unfold SubOK
      simp only [hoth s' hss]
      refine ⟨a, b, ?_⟩
      intro k hk
      obtain ⟨thk, hk1, hk2⟩ := c k hk
      by_cases hki : k = i
      · subst hki
        rw [hth] at hk1
        have : thk = th := (Option.some.inj hk1).symm
        subst this
        refine ⟨retOf stk thk r last, ?_, ?_⟩
        · show (setThread σ k fun t => retOf stk t r last).threads[k]? = _
          rw [setThread_get, if_pos rfl, hth]; rfl
        · rw [hst] at hk2; exact hown s' hss hk2
      · refine ⟨thk, ?_, hk2⟩
        show (setThread σ i fun t => retOf stk t r last).threads[k]? = _
        rw [setThread_get, if_neg hki]; exact hk1
  · intro x hx; rw [hlen]; exact hidx x hx

/-- view-preserving change of the subscribers, arbitrary (legal) change of the transport -/

theorem primG {σ : Sys} (hI : InvW σ) {i : Nat} {th : Thread} {fr : Frame} {rest : List Frame}
    (hth : σ.threads[i]? = some th) (hst : th.stack = fr :: rest)
    (subs' : List Sub) (tr' : Tr) (stk : List Frame) (r : Option Ret) (last : Option Bool)
    (hlen : subs'.length = σ.subs.length)
    (hvw : ∀ x, vw (gs subs' x) = vw (gs σ.subs x))
    (hown : ∀ s', Owns (fr :: rest) s' → Owns stk s')
    (honce : ∀ j, j ≠ i → σ.tr.onceRunning = some j →
      tr'.onceRunning = σ.tr.onceRunning ∧ tr'.onceDone = σ.tr.onceDone ∧ tr'.walked = σ.tr.walked)
    (hidx : ∀ x ∈ tr'.index, x < σ.subs.length)
    (hdone : tr'.onceDone = true → ∀ x ∈ tr'.walked, (gs subs' x).disconnected = true)
    (hme : TOK subs' tr' i stk) :
    InvW { σ with subs := subs', tr := tr', threads := (setThread σ i fun t => retOf stk t r last).threads } := by
  have hv : ∀ j, j ≠ i → ∀ x, (gs σ.subs x).outOwner = some j → vw (gs subs' x) = vw (gs σ.subs x) :=
    fun _ _ x _ => hvw x
  have hm : ∀ x, (gs σ.subs x).disconnected = true → (gs subs' x).disconnected = true := by
    intro x hx; rw [(vw_eq (hvw x)).1]; exact hx
  refine ⟨hI.flags, hI.panic, ?_, ?_, ?_, hdone⟩
  · intro j thj hj
    have hj' : (setThread σ i fun t => retOf stk t r last).threads[j]? = some thj := hj
    rw [setThread_get] at hj'
    by_cases hji : j = i
    · subst hji
      rw [if_pos rfl, hth] at hj'
      have : thj = retOf stk th r last := by simpa using hj'.symm
      subst this
      exact hme
    · rw [if_neg hji] at hj'
      exact TOK_stab (hI.thr j thj hj') hlen (hv j hji) hm (honce j hji)
  · intro s' hs'
    have hs'' : s' < σ.subs.length := hlen ▸ hs'
    obtain ⟨a, b, c⟩ := hI.sub s' hs''
    obtain ⟨e1, e2, e3⟩ := vw_eq (hvw s')
    unfold SubOK
    simp only [e1, e2, e3]
    refine ⟨a, b, ?_⟩
    intro k hk
    obtain ⟨thk, hk1, hk2⟩ := c k hk
    by_cases hki : k = i
    · subst hki
      rw [hth] at hk1
      have : thk = th := (Option.some.inj hk1).symm
      subst this
      refine ⟨retOf stk thk r last, ?_, ?_⟩
      · show (setThread σ k fun t => retOf stk t r last).threads[k]? = _
        rw [setThread_get, if_pos rfl, hth]; rfl
      · rw [hst] at hk2; exact hown s' hk2
    · refine ⟨thk, ?_, hk2⟩
      show (setThread σ i fun t => retOf stk t r last).threads[k]? = _
      rw [setThread_get, if_neg hki]; exact hk1
  · intro x hx; rw [hlen]; exact hidx x hx

/-! ### derived forms matching the terms `step` and `admin` produce -/

theorem vw_gs_setSub (σ : Sys) (s x : Nat) (f : Sub → Sub) (hv : ∀ b, vw (f b) = vw b) :
    vw (gs (setSub σ s f).subs x) = vw (gs σ.subs x) := by
  rw [gs_setSub]; split
  · exact hv _
  · rfl

theorem done_of_vw {σ : Sys} (hI : InvW σ) {subs' : List Sub} (hvw : ∀ x, vw (gs subs' x) = vw (gs σ.subs x))
    {tr' : Tr} (h1 : tr'.onceDone = σ.tr.onceDone) (h2 : tr'.walked = σ.tr.walked) :
    tr'.onceDone = true → ∀ x ∈ tr'.walked, (gs subs' x).disconnected = true := by
  intro hd x hx
  rw [(vw_eq (hvw x)).1]
  exact hI.done (h1 ▸ hd) x (h2 ▸ hx)

/-- the part of the transport the invariant looks at -/

def tv (t : Tr) : Option Nat × Bool × List Nat × List Nat := (t.onceRunning, t.onceDone, t.walked, t.index)

theorem tv_eq {t t' : Tr} (h : tv t' = tv t) :
    t'.onceRunning = t.onceRunning ∧ t'.onceDone = t.onceDone ∧ t'.walked = t.walked ∧ t'.index = t.index := by
  simpa [tv] using h

theorem prim0 {σ : Sys} (hI : InvW σ) {i : Nat} {th : Thread} {fr : Frame} {rest : List Frame}
    (hth : σ.threads[i]? = some th) (hst : th.stack = fr :: rest)
    (stk : List Frame) (r : Option Ret) (last : Option Bool)
    (hown : ∀ s', Owns (fr :: rest) s' → Owns stk s')
    (hme : TOK σ.subs σ.tr i stk) :
    InvW (setThread σ i fun t => retOf stk t r last) :=
  primG hI hth hst σ.subs σ.tr stk r last rfl (fun _ => rfl) hown (fun _ _ _ => ⟨rfl, rfl, rfl⟩) hI.idx hI.done hme

theorem primT {σ : Sys} (hI : InvW σ) {i : Nat} {th : Thread} {fr : Frame} {rest : List Frame}
    (hth : σ.threads[i]? = some th) (hst : th.stack = fr :: rest)
    (g : Tr → Tr) (stk : List Frame) (r : Option Ret) (last : Option Bool)
    (hown : ∀ s', Owns (fr :: rest) s' → Owns stk s')
    (honce : ∀ j, j ≠ i → σ.tr.onceRunning = some j →
      (g σ.tr).onceRunning = σ.tr.onceRunning ∧ (g σ.tr).onceDone = σ.tr.onceDone ∧ (g σ.tr).walked = σ.tr.walked)
    (hidx : ∀ x ∈ (g σ.tr).index, x < σ.subs.length)
    (hdone : (g σ.tr).onceDone = true → ∀ x ∈ (g σ.tr).walked, (gs σ.subs x).disconnected = true)
    (hme : TOK σ.subs (g σ.tr) i stk) :
    InvW (setThread (setTr σ g) i fun t => retOf stk t r last) :=
  primG hI hth hst σ.subs (g σ.tr) stk r last rfl (fun _ => rfl) hown honce hidx hdone hme

theorem primTv {σ : Sys} (hI : InvW σ) {i : Nat} {th : Thread} {fr : Frame} {rest : List Frame}
    (hth : σ.threads[i]? = some th) (hst : th.stack = fr :: rest)
    (g : Tr → Tr) (stk : List Frame) (r : Option Ret) (last : Option Bool)
    (htv : tv (g σ.tr) = tv σ.tr)
    (hown : ∀ s', Owns (fr :: rest) s' → Owns stk s')
    (hme : TOK σ.subs (g σ.tr) i stk) :
    InvW (setThread (setTr σ g) i fun t => retOf stk t r last) := by
  obtain ⟨e1, e2, e3, e4⟩ := tv_eq htv
  exact primT hI hth hst g stk r last hown (fun _ _ _ => ⟨e1, e2, e3⟩) (e4 ▸ hI.idx)
    (done_of_vw hI (fun _ => rfl) e2 e3) hme

theorem primSv {σ : Sys} (hI : InvW σ) {i : Nat} {th : Thread} {fr : Frame} {rest : List Frame}
    (hth : σ.threads[i]? = some th) (hst : th.stack = fr :: rest)
    (s : Nat) (f : Sub → Sub) (stk : List Frame) (r : Option Ret) (last : Option Bool)
    (hv : ∀ b, vw (f b) = vw b)
    (hown : ∀ s', Owns (fr :: rest) s' → Owns stk s')
    (hme : TOK (setSub σ s f).subs σ.tr i stk) :
    InvW (setThread (setSub σ s f) i fun t => retOf stk t r last) :=
  primG hI hth hst (setSub σ s f).subs σ.tr stk r last (setSub_length σ s f) (fun x => vw_gs_setSub σ s x f hv) hown
    (fun _ _ _ => ⟨rfl, rfl, rfl⟩) hI.idx (done_of_vw hI (fun x => vw_gs_setSub σ s x f hv) rfl rfl) hme

theorem primSTv {σ : Sys} (hI : InvW σ) {i : Nat} {th : Thread} {fr : Frame} {rest : List Frame}
    (hth : σ.threads[i]? = some th) (hst : th.stack = fr :: rest)
    (s : Nat) (f : Sub → Sub) (g : Tr → Tr) (stk : List Frame) (r : Option Ret) (last : Option Bool)
    (hv : ∀ b, vw (f b) = vw b)
    (hown : ∀ s', Owns (fr :: rest) s' → Owns stk s')
    (honce : ∀ j, j ≠ i → σ.tr.onceRunning = some j →
      (g σ.tr).onceRunning = σ.tr.onceRunning ∧ (g σ.tr).onceDone = σ.tr.onceDone ∧ (g σ.tr).walked = σ.tr.walked)
    (hidx : ∀ x ∈ (g σ.tr).index, x < σ.subs.length)
    (hd1 : (g σ.tr).onceDone = σ.tr.onceDone) (hd2 : (g σ.tr).walked = σ.tr.walked)
    (hme : TOK (setSub σ s f).subs (g σ.tr) i stk) :
    InvW (setThread (setTr (setSub σ s f) g) i fun t => retOf stk t r last) :=
  primG hI hth hst (setSub σ s f).subs (g σ.tr) stk r last (setSub_length σ s f) (fun x => vw_gs_setSub σ s x f hv) hown
    honce hidx (done_of_vw hI (fun x => vw_gs_setSub σ s x f hv) hd1 hd2) hme

/-- view-changing update of subscriber `s` (only legal for the owner of its out-mutex, or to acquire it) -/

theorem primS {σ : Sys} (hI : InvW σ) {i : Nat} {th : Thread} {fr : Frame} {rest : List Frame}
    (hth : σ.threads[i]? = some th) (hst : th.stack = fr :: rest)
    (s : Nat) (f : Sub → Sub) (stk : List Frame) (r : Option Ret) (last : Option Bool)
    (hs : s < σ.subs.length)
    (hmono : (gs σ.subs s).disconnected = true → (f (gs σ.subs s)).disconnected = true)
    (hleg : (gs σ.subs s).outOwner = some i ∨ (gs σ.subs s).outOwner = none)
    (h1 : (f (gs σ.subs s)).outClosed = true → (f (gs σ.subs s)).disconnected = true)
    (h4 : (f (gs σ.subs s)).outOwner = none → (f (gs σ.subs s)).disconnected = (f (gs σ.subs s)).outClosed)
    (h5 : ∀ k, (f (gs σ.subs s)).outOwner = some k → k = i ∧ Owns stk s)
    (hown : ∀ s', s' ≠ s → Owns (fr :: rest) s' → Owns stk s')
    (hme : TOK (setSub σ s f).subs σ.tr i stk) :
    InvW (setThread (setSub σ s f) i fun t => retOf stk t r last) := by
  have e : gs (setSub σ s f).subs s = f (gs σ.subs s) := gs_setSub_self σ s f hs
  refine prim hI hth hst (setSub σ s f).subs σ.tr stk r last s (setSub_length σ s f)
    (fun s' h => gs_setSub_ne σ s s' f h) (e ▸ hmono) (Or.inr hleg) (e ▸ h1) (e ▸ h4) ?_ hown
    (fun _ _ _ => ⟨rfl, rfl, rfl⟩) hI.idx ?_ hme
  · intro k hk; rw [e] at hk; exact Or.inl (h5 k hk)
  · intro hd x hx
    by_cases hxs : x = s
    · subst hxs; rw [e]; exact hmono (hI.done hd x hx)
    · rw [gs_setSub_ne σ s x f hxs]; exact hI.done hd x hx

/-! ### thread-stack lemmas -/

theorem TOK_head {subs : List Sub} {tr : Tr} {i : Nat} {f : Frame} {rest : List Frame}
    (h : TOK subs tr i (f :: rest)) : FrameOK subs tr i none f := by
  match rest, h with
  | [], h => exact h
  | [g], h => exact h.2.2.1

theorem TOK_nonsub {subs : List Sub} {tr : Tr} {i : Nat} {f : Frame} {rest : List Frame}
    (h : TOK subs tr i (f :: rest)) (hf : isSub f = false) : rest = [] := by
  match rest, h with
  | [], h => rfl
  | [g], h => exact absurd (hf ▸ h.1 : false = true) (by decide)

theorem FrameOK_nonsub {subs subs' : List Sub} {tr : Tr} {j : Nat} {c : Option Nat} {g : Frame}
    (h : FrameOK subs tr j c g) (hg : isSub g = false) (hlen : subs'.length = subs.length)
    (hm : ∀ x, (gs subs x).disconnected = true → (gs subs' x).disconnected = true)
    (hc : ∀ x, c = some x → (gs subs' x).disconnected = true) :
    FrameOK subs' tr j none g := by
  cases g with
  | sDispatch s u hist pc => cases hg
  | sReady s pc q => cases hg
  | sDisconnect s pc => cases hg
  | tAdd s pc a b c => unfold FrameOK at *; omega
  | uRecv s => unfold FrameOK at *; omega
  | tDispatch u pc rs => unfold FrameOK at *; rw [hlen]; exact h
  | tRemove s pc => trivial
  | tList => trivial
  | tClose pc todo =>
    obtain ⟨h1, h2, h3, h4⟩ := h
    refine ⟨h1, hlen ▸ h2, ?_, h4⟩
    intro hp s' hs'
    rcases h3 hp s' hs' with h | h | h
    · exact Or.inl h
    · exact Or.inr (Or.inr (hc s' h.symm))
    · exact Or.inr (Or.inr (hm _ h))

theorem FrameOK_nonsub' {subs subs' : List Sub} {tr : Tr} {j : Nat} {c : Option Nat} {g : Frame}
    (h : FrameOK subs tr j c g) (hg : isSub g = false) (hlen : subs'.length = subs.length)
    (hm : ∀ x, (gs subs x).disconnected = true → (gs subs' x).disconnected = true) :
    FrameOK subs' tr j c g := by
  cases g with
  | sDispatch s u hist pc => cases hg
  | sReady s pc q => cases hg
  | sDisconnect s pc => cases hg
  | tAdd s pc a b c => unfold FrameOK at *; omega
  | uRecv s => unfold FrameOK at *; omega
  | tDispatch u pc rs => unfold FrameOK at *; rw [hlen]; exact h
  | tRemove s pc => trivial
  | tList => trivial
  | tClose pc todo =>
    obtain ⟨h1, h2, h3, h4⟩ := h
    refine ⟨h1, hlen ▸ h2, ?_, h4⟩
    intro hp s' hs'
    rcases h3 hp s' hs' with h | h | h
    · exact Or.inl h
    · exact Or.inr (Or.inl h)
    · exact Or.inr (Or.inr (hm _ h))

/-- the top (subscriber-level) frame advances -/

theorem TOK_top {subs subs' : List Sub} {tr : Tr} {i : Nat} {f f' : Frame} {rest : List Frame}
    (h : TOK subs tr i (f :: rest)) (hf' : isSub f' = true) (hc : cur f' = cur f)
    (hlen : subs'.length = subs.length)
    (hm : ∀ x, (gs subs x).disconnected = true → (gs subs' x).disconnected = true)
    (hF : FrameOK subs' tr i none f') : TOK subs' tr i (f' :: rest) := by
  match rest, h with
  | [], h => exact hF
  | [g], h => exact ⟨hf', h.2.1, hF, hc ▸ FrameOK_nonsub' h.2.2.2 h.2.1 hlen hm⟩

/-- the top (subscriber-level) frame returns -/

theorem TOK_pop {subs subs' : List Sub} {tr : Tr} {i : Nat} {f : Frame} {rest : List Frame}
    (h : TOK subs tr i (f :: rest)) (hlen : subs'.length = subs.length)
    (hm : ∀ x, (gs subs x).disconnected = true → (gs subs' x).disconnected = true)
    (hc : ∀ x, cur f = some x → (gs subs' x).disconnected = true) : TOK subs' tr i rest := by
  match rest, h with
  | [], h => trivial
  | [g], h => exact FrameOK_nonsub h.2.2.2 h.2.1 hlen hm hc

theorem scanLoop_cases (fl : Flags) (sb : Sub) (s toSeq : Nat) : ∀ (fuel : Nat) (todo : List (Nat × Upd)) (resp : Resp),
    (∃ resp', scanLoop fl sb s toSeq fuel todo resp = [.tAdd s 4 toSeq [] resp']) ∨
    (∃ e more resp', scanLoop fl sb s toSeq fuel todo resp = [.sDispatch s e true 0, .tAdd s 8 toSeq more resp'])
  | 0, [], resp => Or.inl ⟨resp, by simp [scanLoop]⟩
  | 0, _ :: _, resp => Or.inl ⟨resp, by simp [scanLoop]⟩
  | fuel + 1, [], resp => Or.inl ⟨resp, by simp [scanLoop]⟩
  | fuel + 1, e :: more, resp => by
    unfold scanLoop
    split
    · exact Or.inl ⟨resp, rfl⟩
    split
    · exact Or.inr ⟨_, _, _, rfl⟩
    split
    · exact Or.inl ⟨resp, rfl⟩
    exact scanLoop_cases fl sb s toSeq fuel more resp

theorem RegD_zero (b : Sub) (j : Nat) : RegD 0 b j := by
  unfold RegD; refine ⟨?_, ?_, ?_, ?_⟩ <;> intro h <;> omega

theorem RegR_zero (b : Sub) (j : Nat) : RegR 0 b j := by
  unfold RegR; refine ⟨?_, ?_, ?_, ?_⟩ <;> intro h <;> omega

theorem RegX_zero (b : Sub) (j : Nat) : RegX 0 b j := by
  unfold RegX; refine ⟨?_, ?_, ?_, ?_⟩ <;> intro h <;> omega

theorem scanLoop_ok (fl : Flags) (sb : Sub) (s toSeq : Nat) (fuel : Nat) (todo : List (Nat × Upd)) (resp : Resp)
    (subs : List Sub) (tr : Tr) (i : Nat) (hs : s < subs.length) :
    TOK subs tr i (scanLoop fl sb s toSeq fuel todo resp) ∧ adminTop (scanLoop fl sb s toSeq fuel todo resp) = false ∧
    (∀ s', ¬ Owns (scanLoop fl sb s toSeq fuel todo resp) s') := by
  rcases scanLoop_cases fl sb s toSeq fuel todo resp with ⟨r', h⟩ | ⟨e, more, r', h⟩
  · rw [h]; exact ⟨hs, rfl, fun _ h => h⟩
  · rw [h]; exact ⟨⟨rfl, rfl, ⟨hs, RegD_zero _ _⟩, hs⟩, rfl, fun _ h => by simp [Owns] at h⟩

/-! ### administrative transitions -/

theorem admin_none_of (σ : Sys) (i : Nat) (h : ∀ th, σ.threads[i]? = some th → adminTop th.stack = false) :
    admin σ i = none := by
  unfold admin
  split
  · rfl
  · next th hth =>
    have := h th hth
    simp only
    split <;> first | rfl | (rename_i heq; rw [heq] at this; cases this)

theorem adminTop_of_none (σ : Sys) (i : Nat) (h : admin σ i = none) (th : Thread) (hth : σ.threads[i]? = some th) :
    adminTop th.stack = false := by
  unfold admin at h
  rw [hth] at h
  simp only at h
  split at h
  all_goals (try (split at h))
  all_goals (try (split at h))
  all_goals (try (split at h))
  all_goals (first | cases h | skip)
  rename_i h1 h2 h3 h4
  match hs : th.stack with
  | [] => rfl
  | f :: rest =>
    cases f with
    | tDispatch u pc rs =>
      by_cases hp : pc = 9
      · subst hp; exact absurd hs (by intro hs; exact h1 _ _ _ hs)
      · unfold adminTop; split <;> simp_all
    | tAdd s pc a b c =>
      by_cases hp : pc = 8
      · subst hp; exact absurd hs (by intro hs; exact h2 _ _ _ _ _ hs)
      · by_cases hp' : pc = 7
        · subst hp'; exact absurd hs (by intro hs; exact h3 _ _ _ _ _ hs)
        · unfold adminTop; split <;> simp_all
    | tClose pc todo =>
      by_cases hp : pc = 9
      · subst hp; exact absurd hs (by intro hs; exact h4 _ _ hs)
      · unfold adminTop; split <;> simp_all
    | _ => rfl

theorem admin_closedCh (σ σ' : Sys) (i : Nat) (h : admin σ i = some σ') : σ'.tr.closedCh = σ.tr.closedCh := by
  unfold admin at h
  split at h
  · cases h
  · simp only at h
    split at h
    all_goals (try (split at h))
    all_goals (try (split at h))
    all_goals (try (split at h))
    all_goals (first | (cases h; rfl) | cases h)

theorem normalize_closedCh (i : Nat) : ∀ (n : Nat) (σ : Sys), (normalize i n σ).tr.closedCh = σ.tr.closedCh
  | 0, σ => rfl
  | n+1, σ => by
    unfold normalize
    split
    · next σ' h => rw [normalize_closedCh i n σ', admin_closedCh σ σ' i h]
    · rfl

theorem getSub_mem (σ : Sys) (s : Nat) (h : s < σ.subs.length) : getSub σ s ∈ σ.subs := by
  unfold getSub
  rw [List.getD_eq_getElem?_getD, List.getElem?_eq_getElem h]
  exact List.getElem_mem h

theorem getSub_live (σ : Sys) (s : Nat) (h : (getSub σ s).liveOwner.isSome = true) :
    ∃ b ∈ σ.subs, b.liveOwner.isSome ∨ b.outOwner.isSome := by
  by_cases hs : s < σ.subs.length
  · exact ⟨_, getSub_mem σ s hs, Or.inl h⟩
  · unfold getSub at h
    rw [List.getD_eq_getElem?_getD, List.getElem?_eq_none (by omega)] at h
    simp at h

theorem getSub_out (σ : Sys) (s : Nat) (h : (getSub σ s).outOwner.isSome = true) :
    ∃ b ∈ σ.subs, b.liveOwner.isSome ∨ b.outOwner.isSome := by
  by_cases hs : s < σ.subs.length
  · exact ⟨_, getSub_mem σ s hs, Or.inr h⟩
  · unfold getSub at h
    rw [List.getD_eq_getElem?_getD, List.getElem?_eq_none (by omega)] at h
    simp at h

theorem normalize_of_none (i n : Nat) (σ : Sys) (h : admin σ i = none) : normalize i n σ = σ := by
  cases n with
  | zero => rfl
  | succ n => unfold normalize; rw [h]

theorem admin_nil (σ : Sys) (i : Nat) (th : Thread) (hth : σ.threads[i]? = some th) (hst : th.stack = []) :
    admin σ i = none := by
  unfold admin
  simp only [hth, hst]

theorem cont_props (X : Sys) (i : Nat) (th : Thread) (hX : X.threads[i]? = some th)
    (stk : List Frame) (r : Option Ret) (last : Option Bool) :
    (∀ th', (setThread X i fun t => retOf stk t r last).threads[i]? = some th' → th'.stack = stk) ∧
    (∀ j, j ≠ i → (setThread X i fun t => retOf stk t r last).threads[j]? = X.threads[j]?) := by
  constructor
  · intro th' h
    rw [setThread_get, if_pos rfl, hX] at h
    have : th' = retOf stk th r last := by simpa using h.symm
    subst this; rfl
  · intro j hj
    rw [setThread_get, if_neg hj]

theorem admin_inv {σ σ' : Sys} {i : Nat} (hI : InvW σ) (h : admin σ i = some σ') :
    InvW σ' ∧ (∀ th', σ'.threads[i]? = some th' → adminTop th'.stack = false) ∧
    (∀ j, j ≠ i → σ'.threads[j]? = σ.threads[j]?) := by
  unfold admin at h
  split at h
  · cases h
  next th hth =>
  simp only at h
  have hT := hI.thr i th hth
  have hfl := hI.flags
  split at h
  · -- tDispatch 9
    next u recips rest heq =>
    rw [heq] at hT
    have hr := TOK_nonsub hT rfl
    subst hr
    split at h
    · next s rs' =>
      injection h with h; subst h
      obtain ⟨c1, c2⟩ := cont_props σ i th hth (.sDispatch s u false 0 :: .tDispatch u 9 rs' :: []) none none
      refine ⟨?_, fun th' h' => by rw [c1 th' h']; rfl, c2⟩
      apply prim0 hI hth heq
      · intro s' h; exact h.elim
      · have : ∀ x ∈ s :: rs', x < σ.subs.length := hT
        exact ⟨rfl, rfl, ⟨this s (by simp), RegD_zero _ _⟩, fun x hx => this x (by simp [hx])⟩
    · split at h
      · rw [hfl] at *; contradiction
      · injection h with h; subst h
        obtain ⟨c1, c2⟩ := cont_props (setTr σ fun t => { t with writer := none, lastId := .id u.id }) i th hth [] (some .ok) none
        refine ⟨?_, fun th' h' => by rw [c1 th' h']; rfl, c2⟩
        apply primTv hI hth heq
        · rfl
        · intro s' h; exact h.elim
        · trivial
      · injection h with h; subst h
        obtain ⟨c1, c2⟩ := cont_props (setTr σ fun t => { t with writer := none }) i th hth [] (some .ok) none
        refine ⟨?_, fun th' h' => by rw [c1 th' h']; rfl, c2⟩
        apply primTv hI hth heq
        · rfl
        · intro s' h; exact h.elim
        · trivial
  · -- tAdd 8
    next s toSeq scan resp rest heq =>
    rw [heq] at hT
    have hr := TOK_nonsub hT rfl
    subst hr
    have hs : s < σ.subs.length := hT
    have key : ∀ r', InvW (setThread σ i fun t => retOf [.tAdd s 4 toSeq [] r'] t none none) ∧
        (∀ th', (setThread σ i fun t => retOf [.tAdd s 4 toSeq [] r'] t none none).threads[i]? = some th' →
          adminTop th'.stack = false) ∧
        (∀ j, j ≠ i → (setThread σ i fun t => retOf [.tAdd s 4 toSeq [] r'] t none none).threads[j]? = σ.threads[j]?) := by
      intro r'
      obtain ⟨c1, c2⟩ := cont_props σ i th hth [.tAdd s 4 toSeq [] r'] none none
      refine ⟨?_, fun th' h' => by rw [c1 th' h']; rfl, c2⟩
      apply prim0 hI hth heq
      · intro s' h; exact h.elim
      · exact hs
    split at h
    · injection h with h; subst h; exact key _
    · split at h
      · injection h with h; subst h; exact key _
      · split at h
        · injection h with h; subst h; exact key _
        · injection h with h; subst h
          rename_i e more _ _
          obtain ⟨k1, k2, k3⟩ := scanLoop_ok σ.flags (getSub σ s) s toSeq (more.length + 1) more resp σ.subs σ.tr i hs
          rw [List.append_nil]
          obtain ⟨c1, c2⟩ := cont_props σ i th hth (scanLoop σ.flags (getSub σ s) s toSeq (more.length + 1) more resp) none none
          refine ⟨?_, fun th' h' => by rw [c1 th' h']; exact k2, c2⟩
          apply prim0 hI hth heq
          · intro s' h; exact h.elim
          · exact k1
  · -- tAdd 7
    next s toSeq scan resp rest heq =>
    rw [heq] at hT
    have hr := TOK_nonsub hT rfl
    subst hr
    split at h
    · injection h with h; subst h
      obtain ⟨c1, c2⟩ := cont_props (setTr σ fun t => { t with writer := none }) i th hth [] (some .ok) none
      refine ⟨?_, fun th' h' => by rw [c1 th' h']; rfl, c2⟩
      apply primTv hI hth heq
      · rfl
      · intro s' h; exact h.elim
      · trivial
    · injection h with h; subst h
      obtain ⟨c1, c2⟩ := cont_props σ i th hth [] (some .ok) none
      refine ⟨?_, fun th' h' => by rw [c1 th' h']; rfl, c2⟩
      apply prim0 hI hth heq
      · intro s' h; exact h.elim
      · trivial
  · -- tClose 9
    next todo rest heq =>
    rw [heq] at hT
    have hr := TOK_nonsub hT rfl
    subst hr
    obtain ⟨t1, t2, t3, t4⟩ : FrameOK σ.subs σ.tr i none (.tClose 9 todo) := hT
    split at h
    · next s more =>
      injection h with h; subst h
      obtain ⟨c1, c2⟩ := cont_props σ i th hth (.sDisconnect s 0 :: .tClose 9 more :: []) none none
      refine ⟨?_, fun th' h' => by rw [c1 th' h']; rfl, c2⟩
      apply prim0 hI hth heq
      · intro s' h; exact h.elim
      · refine ⟨rfl, rfl, ⟨t2 s (by simp), RegX_zero _ _⟩, t1, fun x hx => t2 x (by simp [hx]), ?_, fun h => absurd rfl h⟩
        intro hp s' hs'
        rcases t3 hp s' hs' with h | h | h
        · rcases List.mem_cons.mp h with h | h
          · subst h; exact Or.inr (Or.inl rfl)
          · exact Or.inl h
        · cases h
        · exact Or.inr (Or.inr h)
    · split at h
      · injection h with h; subst h
        obtain ⟨c1, c2⟩ := cont_props σ i th hth [.tClose 4 []] none none
        refine ⟨?_, fun th' h' => by rw [c1 th' h']; rfl, c2⟩
        apply prim0 hI hth heq
        · intro s' h; exact h.elim
        · exact ⟨fun _ => t1 (by omega), t2, fun _ => t3 (by omega), fun _ => rfl⟩
      · injection h with h; subst h
        obtain ⟨c1, c2⟩ := cont_props (setTr σ fun t => { t with writer := none, onceRunning := none, onceDone := true }) i th hth [] (some .ok) none
        refine ⟨?_, fun th' h' => by rw [c1 th' h']; rfl, c2⟩
        apply primT hI hth heq
        · intro s' h; exact h.elim
        · intro j hj hr
          rw [(t1 (by omega)).1] at hr
          exact absurd (Option.some.inj hr).symm hj
        · exact hI.idx
        · intro _ x hx
          rcases t3 (by omega) x hx with h | h | h
          · cases h
          · cases h
          · exact h
        · trivial
  · cases h

/-! ### normalisation -/

def Inv (σ : Sys) : Prop := InvW σ ∧ Norm σ

theorem norm_inv {σ₁ : Sys} {i : Nat} (hI : InvW σ₁)
    (hN : ∀ j, j ≠ i → ∀ th, σ₁.threads[j]? = some th → adminTop th.stack = false) (n : Nat) :
    Inv (normalize i (n + 2) σ₁) := by
  unfold normalize
  cases h : admin σ₁ i with
  | none =>
    refine ⟨hI, fun j th hj => ?_⟩
    by_cases hji : j = i
    · subst hji; exact adminTop_of_none σ₁ j h th hj
    · exact hN j hji th hj
  | some σ₂ =>
    obtain ⟨I2, a2, o2⟩ := admin_inv hI h
    simp only
    rw [normalize_of_none i (n + 1) σ₂ (admin_none_of σ₂ i a2)]
    refine ⟨I2, fun j th hj => ?_⟩
    by_cases hji : j = i
    · subst hji; exact a2 th hj
    · rw [o2 j hji] at hj; exact hN j hji th hj

theorem finish {σ X : Sys} {i : Nat} {stk : List Frame} {r : Option Ret} {last : Option Bool}
    (hN : Norm σ) (n : Nat)
    (hI : InvW (setThread X i fun t => retOf stk t r last)) (hX : X.threads = σ.threads := by rfl) :
    Inv (normalize i (n + 8) (setThread X i fun t => retOf stk t r last)) := by
  apply norm_inv hI
  intro j hj th hth
  rw [setThread_get, if_neg hj, hX] at hth
  exact hN j th hth

theorem RegD_lt {pc : Nat} (b : Sub) (j : Nat) (h : pc < 4) : RegD pc b j := by
  unfold RegD; refine ⟨?_, ?_, ?_, ?_⟩ <;> intro h <;> omega

theorem RegR_lt {pc : Nat} (b : Sub) (j : Nat) (h : pc < 2) : RegR pc b j := by
  unfold RegR; refine ⟨?_, ?_, ?_, ?_⟩ <;> intro h <;> omega

theorem RegX_lt {pc : Nat} (b : Sub) (j : Nat) (h : pc < 2) : RegX pc b j := by
  unfold RegX; refine ⟨?_, ?_, ?_, ?_⟩ <;> intro h <;> omega

@[simp] theorem rep1 : Flags.repaired.closeOnOverflow = true := rfl

@[simp] theorem rep2 : Flags.repaired.readyGuard = true := rfl

@[simp] theorem rep3 : Flags.repaired.disconnectRecheck = true := rfl

@[simp] theorem rep4 : Flags.repaired.localMatchLocked = true := rfl

@[simp] theorem rep5 : Flags.repaired.lastSeqOnOpen = true := rfl

@[simp] theorem rep6 : Flags.repaired.cutBeforeDispatch = true := rfl

theorem id_mono {subs : List Sub} : ∀ x, (gs subs x).disconnected = true → (gs subs x).disconnected = true :=
  fun _ h => h

theorem mono_setSub_v (σ : Sys) (s : Nat) (f : Sub → Sub) (hv : ∀ b, vw (f b) = vw b) :
    ∀ x, (gs σ.subs x).disconnected = true → (gs (setSub σ s f).subs x).disconnected = true := by
  intro x h; rw [(vw_eq (vw_gs_setSub σ s x f hv)).1]; exact h

theorem mono_setSub (σ : Sys) (s : Nat) (f : Sub → Sub)
    (hm : (gs σ.subs s).disconnected = true → (f (gs σ.subs s)).disconnected = true) :
    ∀ x, (gs σ.subs x).disconnected = true → (gs (setSub σ s f).subs x).disconnected = true := by
  intro x h; rw [gs_setSub]; split
  · next h' => rw [h'.1] at h ⊢; exact hm h
  · exact h

theorem isSome_false {α} {o : Option α} (h : ¬ o.isSome = true) : o = none := by
  cases o <;> simp_all

theorem step_sDispatch {σ : Sys} {i : Nat} {th : Thread} {s : Nat} {u : Upd} {hist : Bool} {pc : Nat} {rest : List Frame}
    (h : Inv σ) (hth : σ.threads[i]? = some th) (hst : th.stack = .sDispatch s u hist pc :: rest) :
    Inv (step σ i).σ := by
  obtain ⟨hI, hN⟩ := h
  have hp := hI.panic
  have hT := hI.thr i th hth
  rw [hst] at hT
  obtain ⟨hs, hR⟩ : FrameOK σ.subs σ.tr i none (.sDispatch s u hist pc) := TOK_head hT
  obtain ⟨s1, s4, s5⟩ := hI.sub s hs
  unfold step
  simp only [hp, hth, hst, Option.isSome_none, Bool.false_eq_true, if_false, hI.flags, rep1, if_true]
  split
  · -- 0
    split
    · apply finish hN; apply prim0 hI hth hst
      · intro s' h; simp [Owns] at h
      · exact TOK_pop hT rfl id_mono (by intro x h; cases h)
    · apply finish hN; apply prim0 hI hth hst
      · intro s' h; simp [Owns] at h
      · exact TOK_top hT rfl rfl rfl id_mono ⟨hs, RegD_lt _ _ (by omega)⟩
  · -- 1
    split
    · apply finish hN; apply prim0 hI hth hst
      · intro s' h; simp [Owns] at h
      · exact TOK_top hT rfl rfl rfl id_mono ⟨hs, RegD_lt _ _ (by omega)⟩
    · apply finish hN; apply prim0 hI hth hst
      · intro s' h; simp [Owns] at h
      · exact TOK_top hT rfl rfl rfl id_mono ⟨hs, RegD_lt _ _ (by omega)⟩
  · -- 2
    split
    · exact ⟨hI, hN⟩
    split
    · apply finish hN; apply primSv hI hth hst
      · intro b; rfl
      · intro s' h; simp [Owns] at h
      · exact TOK_pop hT (setSub_length _ _ _) (mono_setSub_v _ _ _ (fun _ => rfl)) (by intro x h; cases h)
    · apply finish hN; apply prim0 hI hth hst
      · intro s' h; simp [Owns] at h
      · exact TOK_top hT rfl rfl rfl id_mono ⟨hs, RegD_lt _ _ (by omega)⟩
  · -- 3
    split
    · exact ⟨hI, hN⟩
    next hno =>
    have hno : (gs σ.subs s).outOwner = none := isSome_false hno
    apply finish hN; apply primS hI hth hst
    · exact hs
    · exact fun h => h
    · exact Or.inr hno
    · exact s1
    · intro h; cases h
    · intro k hk; exact ⟨(Option.some.inj hk).symm, rfl, by omega⟩
    · intro s' _ h; simp [Owns] at h
    · refine TOK_top hT rfl rfl (setSub_length _ _ _) (mono_setSub _ _ _ (fun h => h)) ⟨by simpa using hs, ?_⟩
      rw [gs_setSub_self _ _ _ hs]
      exact ⟨fun _ => rfl, fun _ => s4 hno, by omega, by omega⟩
  · -- 4
    obtain ⟨r1, r2, -, -⟩ := hR
    split
    · apply finish hN; apply primS hI hth hst
      · exact hs
      · exact fun h => h
      · exact Or.inl (r1 (by omega))
      · exact s1
      · intro _; exact r2 rfl
      · intro k hk; cases hk
      · intro s' hne h; simp [Owns] at h; exact absurd h.symm hne
      · exact TOK_pop hT (setSub_length _ _ _) (mono_setSub _ _ _ (fun h => h)) (by intro x h; cases h)
    · next hd =>
      apply finish hN; apply prim0 hI hth hst
      · intro s' h; simp [Owns] at h ⊢; exact h
      · refine TOK_top hT rfl rfl rfl id_mono ⟨hs, fun _ => r1 (by omega), by omega, fun _ => ?_, by omega⟩
        have hd : (gs σ.subs s).disconnected = false := by simpa [getSub_eq] using hd
        refine ⟨hd, ?_⟩
        cases hc : (gs σ.subs s).outClosed
        · rfl
        · rw [s1 hc] at hd; cases hd
  · -- 5
    obtain ⟨r1, -, r3, -⟩ := hR
    obtain ⟨d0, c0⟩ := r3 (Or.inl rfl)
    split
    · next hc => rw [getSub_eq, c0] at hc; cases hc
    split
    · apply finish hN; apply primS hI hth hst
      · exact hs
      · exact fun h => h
      · exact Or.inl (r1 (by omega))
      · exact s1
      · intro _; exact d0.trans c0.symm
      · intro k hk; cases hk
      · intro s' hne h; simp [Owns] at h; exact absurd h.symm hne
      · exact TOK_pop hT (setSub_length _ _ _) (mono_setSub _ _ _ (fun h => h)) (by intro x h; cases h)
    · apply finish hN; apply prim0 hI hth hst
      · intro s' h; simp [Owns] at h ⊢; exact h
      · exact TOK_top hT rfl rfl rfl id_mono ⟨hs, fun _ => r1 (by omega), by omega, fun _ => ⟨d0, c0⟩, by omega⟩
  · -- 6
    obtain ⟨r1, -, r3, -⟩ := hR
    obtain ⟨d0, c0⟩ := r3 (Or.inr rfl)
    have ho := r1 (by omega)
    apply finish hN; apply primS hI hth hst
    · exact hs
    · exact fun _ => rfl
    · exact Or.inl ho
    · exact fun _ => rfl
    · intro h; rw [show ({ (gs σ.subs s) with disconnected := true } : Sub).outOwner = some i from ho] at h; cases h
    · intro k hk
      rw [show ({ (gs σ.subs s) with disconnected := true } : Sub).outOwner = some i from ho] at hk
      exact ⟨(Option.some.inj hk).symm, rfl, by omega⟩
    · intro s' hne h; simp [Owns] at h; exact absurd h.symm hne
    · refine TOK_top hT rfl rfl (setSub_length _ _ _) (mono_setSub _ _ _ (fun _ => rfl)) ⟨by simpa using hs, ?_⟩
      rw [gs_setSub_self _ _ _ hs]
      exact ⟨fun _ => ho, by omega, by omega, fun _ => ⟨rfl, c0⟩⟩
  · -- ≥ 7
    have h7 : 7 ≤ pc := by simp only [imp_false] at *; omega
    obtain ⟨r1, -, -, r4⟩ := hR
    obtain ⟨d1, c0⟩ := r4 h7
    split
    · next hc => rw [getSub_eq, c0] at hc; cases hc
    apply finish hN; apply primS hI hth hst
    · exact hs
    · exact fun h => h
    · exact Or.inl (r1 (by omega))
    · exact fun _ => d1
    · exact fun _ => d1
    · intro k hk; cases hk
    · intro s' hne h; exact absurd h.1.symm hne
    · exact TOK_pop hT (setSub_length _ _ _) (mono_setSub _ _ _ (fun h => h)) (by intro x h; cases h)

theorem step_sReady {σ : Sys} {i : Nat} {th : Thread} {s : Nat} {pc : Nat} {q : List Upd} {rest : List Frame}
    (h : Inv σ) (hth : σ.threads[i]? = some th) (hst : th.stack = .sReady s pc q :: rest) :
    Inv (step σ i).σ := by
  obtain ⟨hI, hN⟩ := h
  have hp := hI.panic
  have hT := hI.thr i th hth
  rw [hst] at hT
  obtain ⟨hs, hR⟩ : FrameOK σ.subs σ.tr i none (.sReady s pc q) := TOK_head hT
  obtain ⟨s1, s4, s5⟩ := hI.sub s hs
  have c_of_d : (gs σ.subs s).disconnected = false → (gs σ.subs s).outClosed = false := by
    intro hd
    cases hc : (gs σ.subs s).outClosed
    · rfl
    · rw [s1 hc] at hd; cases hd
  unfold step
  simp only [hp, hth, hst, Option.isSome_none, Bool.false_eq_true, if_false, hI.flags, rep1, rep2, if_true]
  split
  · -- 0
    split
    · exact ⟨hI, hN⟩
    · apply finish hN; apply primSv hI hth hst
      · intro b; rfl
      · intro s' h; simp [Owns] at h
      · refine TOK_top hT rfl rfl (setSub_length _ _ _) (mono_setSub_v _ _ _ (fun _ => rfl)) ⟨by simpa using hs, RegR_lt _ _ (by omega)⟩
  · -- 1
    split
    · exact ⟨hI, hN⟩
    next hno =>
    have hno : (gs σ.subs s).outOwner = none := isSome_false hno
    apply finish hN; apply primS hI hth hst
    · exact hs
    · exact fun h => h
    · exact Or.inr hno
    · exact s1
    · intro h; cases h
    · intro k hk; exact ⟨(Option.some.inj hk).symm, rfl, by omega⟩
    · intro s' _ h; simp [Owns] at h
    · refine TOK_top hT rfl rfl (setSub_length _ _ _) (mono_setSub _ _ _ (fun h => h)) ⟨by simpa using hs, ?_⟩
      rw [gs_setSub_self _ _ _ hs]
      exact ⟨fun _ => rfl, fun _ => s4 hno, by omega, by omega⟩
  · -- 2
    obtain ⟨r1, r2, -, -⟩ := hR
    have ho := r1 (by omega)
    split
    · apply finish hN; apply primS hI hth hst
      · exact hs
      · exact fun h => h
      · exact Or.inl ho
      · exact s1
      · intro _; exact r2 rfl
      · intro k hk; cases hk
      · intro s' hne h; exact absurd h.1.symm hne
      · exact TOK_pop hT (setSub_length _ _ _) (mono_setSub _ _ _ (fun h => h)) (by intro x h; cases h)
    · next hd =>
      have hd : (gs σ.subs s).disconnected = false := by simpa [getSub_eq] using hd
      split
      · apply finish hN; apply prim0 hI hth hst
        · intro s' h; simp [Owns] at h ⊢; exact h
        · exact TOK_top hT rfl rfl rfl id_mono ⟨hs, fun _ => ho, by omega, fun _ => ⟨hd, c_of_d hd⟩, by omega⟩
      · apply finish hN; apply prim0 hI hth hst
        · intro s' h; simp [Owns] at h ⊢; exact h
        · exact TOK_top hT rfl rfl rfl id_mono ⟨hs, fun _ => ho, by omega, fun _ => ⟨hd, c_of_d hd⟩, by omega⟩
  · -- 3
    obtain ⟨r1, -, r3, -⟩ := hR
    have ho := r1 (by omega)
    obtain ⟨d0, c0⟩ := r3 (Or.inl rfl)
    split
    · apply finish hN; apply prim0 hI hth hst
      · intro s' h; simp [Owns] at h ⊢; exact h
      · exact TOK_top hT rfl rfl rfl id_mono ⟨hs, fun _ => ho, by omega, fun _ => ⟨d0, c0⟩, by omega⟩
    · split
      · next hc => rw [getSub_eq, c0] at hc; cases hc
      split
      · split
        · apply finish hN; apply primSv hI hth hst
          · intro b; rfl
          · intro s' h; simp [Owns] at h ⊢; exact h
          · refine TOK_top hT rfl rfl (setSub_length _ _ _) (mono_setSub_v _ _ _ (fun _ => rfl)) ⟨by simpa using hs, ?_⟩
            rw [gs_setSub_self _ _ _ hs]
            exact ⟨fun _ => ho, by omega, fun _ => ⟨d0, c0⟩, by omega⟩
        · apply finish hN; apply primSv hI hth hst
          · intro b; rfl
          · intro s' h; simp [Owns] at h ⊢; exact h
          · refine TOK_top hT rfl rfl (setSub_length _ _ _) (mono_setSub_v _ _ _ (fun _ => rfl)) ⟨by simpa using hs, ?_⟩
            rw [gs_setSub_self _ _ _ hs]
            exact ⟨fun _ => ho, by omega, fun _ => ⟨d0, c0⟩, by omega⟩
      · apply finish hN; apply prim0 hI hth hst
        · intro s' h; simp [Owns] at h ⊢; exact h
        · exact TOK_top hT rfl rfl rfl id_mono ⟨hs, fun _ => ho, by omega, fun _ => ⟨d0, c0⟩, by omega⟩
  · -- 4
    obtain ⟨r1, -, r3, -⟩ := hR
    obtain ⟨d0, c0⟩ := r3 (Or.inr (Or.inl rfl))
    have ho := r1 (by omega)
    apply finish hN; apply primS hI hth hst
    · exact hs
    · exact fun _ => rfl
    · exact Or.inl ho
    · exact fun _ => rfl
    · intro h; rw [show ({ (gs σ.subs s) with disconnected := true } : Sub).outOwner = some i from ho] at h; cases h
    · intro k hk
      rw [show ({ (gs σ.subs s) with disconnected := true } : Sub).outOwner = some i from ho] at hk
      exact ⟨(Option.some.inj hk).symm, rfl, by omega⟩
    · intro s' hne h; exact absurd h.1.symm hne
    · refine TOK_top hT rfl rfl (setSub_length _ _ _) (mono_setSub _ _ _ (fun _ => rfl)) ⟨by simpa using hs, ?_⟩
      rw [gs_setSub_self _ _ _ hs]
      exact ⟨fun _ => ho, by omega, by omega, fun _ => ⟨rfl, c0⟩⟩
  · -- 5
    obtain ⟨r1, -, -, r4⟩ := hR
    obtain ⟨d1, c0⟩ := r4 rfl
    split
    · next hc => rw [getSub_eq, c0] at hc; cases hc
    apply finish hN; apply primS hI hth hst
    · exact hs
    · exact fun h => h
    · exact Or.inl (r1 (by omega))
    · exact fun _ => d1
    · exact fun _ => d1
    · intro k hk; cases hk
    · intro s' hne h; exact absurd h.1.symm hne
    · exact TOK_pop hT (setSub_length _ _ _) (mono_setSub _ _ _ (fun h => h)) (by intro x h; cases h)
  · -- ≥ 6
    have h6 : 6 ≤ pc := by simp only [imp_false] at *; omega
    obtain ⟨r1, -, r3, -⟩ := hR
    obtain ⟨d0, c0⟩ := r3 (Or.inr (Or.inr h6))
    apply finish hN; apply primS hI hth hst
    · exact hs
    · exact fun h => h
    · exact Or.inl (r1 (by omega))
    · exact s1
    · exact fun _ => d0.trans c0.symm
    · intro k hk; cases hk
    · intro s' hne h; exact absurd h.1.symm hne
    · exact TOK_pop hT (setSub_length _ _ _) (mono_setSub _ _ _ (fun h => h)) (by intro x h; cases h)

theorem step_sDisconnect {σ : Sys} {i : Nat} {th : Thread} {s : Nat} {pc : Nat} {rest : List Frame}
    (h : Inv σ) (hth : σ.threads[i]? = some th) (hst : th.stack = .sDisconnect s pc :: rest) :
    Inv (step σ i).σ := by
  obtain ⟨hI, hN⟩ := h
  have hp := hI.panic
  have hT := hI.thr i th hth
  rw [hst] at hT
  obtain ⟨hs, hR⟩ : FrameOK σ.subs σ.tr i none (.sDisconnect s pc) := TOK_head hT
  obtain ⟨s1, s4, s5⟩ := hI.sub s hs
  have c_of_d : (gs σ.subs s).disconnected = false → (gs σ.subs s).outClosed = false := by
    intro hd
    cases hc : (gs σ.subs s).outClosed
    · rfl
    · rw [s1 hc] at hd; cases hd
  unfold step
  simp only [hp, hth, hst, Option.isSome_none, Bool.false_eq_true, if_false, hI.flags, rep3, if_true]
  split
  · -- 0
    split
    · next hd =>
      apply finish hN; apply prim0 hI hth hst
      · intro s' h; simp [Owns] at h
      · exact TOK_pop hT rfl id_mono (by intro x h; cases h; exact hd)
    · apply finish hN; apply prim0 hI hth hst
      · intro s' h; simp [Owns] at h
      · exact TOK_top hT rfl rfl rfl id_mono ⟨hs, RegX_lt _ _ (by omega)⟩
  · -- 1
    split
    · exact ⟨hI, hN⟩
    next hno =>
    have hno : (gs σ.subs s).outOwner = none := isSome_false hno
    apply finish hN; apply primS hI hth hst
    · exact hs
    · exact fun h => h
    · exact Or.inr hno
    · exact s1
    · intro h; cases h
    · intro k hk; exact ⟨(Option.some.inj hk).symm, rfl, by omega⟩
    · intro s' _ h; simp [Owns] at h
    · refine TOK_top hT rfl rfl (setSub_length _ _ _) (mono_setSub _ _ _ (fun h => h)) ⟨by simpa using hs, ?_⟩
      rw [gs_setSub_self _ _ _ hs]
      exact ⟨fun _ => rfl, fun _ => s4 hno, by omega, by omega⟩
  · -- 2
    obtain ⟨r1, r2, -, -⟩ := hR
    have ho := r1 (by omega)
    split
    · next hd =>
      apply finish hN; apply primS hI hth hst
      · exact hs
      · exact fun h => h
      · exact Or.inl ho
      · exact s1
      · intro _; exact r2 rfl
      · intro k hk; cases hk
      · intro s' hne h; exact absurd h.1.symm hne
      · refine TOK_pop hT (setSub_length _ _ _) (mono_setSub _ _ _ (fun h => h)) ?_
        intro x h; cases h
        rw [gs_setSub_self _ _ _ hs]; exact hd
    · next hd =>
      have hd : (gs σ.subs s).disconnected = false := by simpa [getSub_eq] using hd
      apply finish hN; apply prim0 hI hth hst
      · intro s' h; simp [Owns] at h ⊢; exact h
      · exact TOK_top hT rfl rfl rfl id_mono ⟨hs, fun _ => ho, by omega, fun _ => ⟨hd, c_of_d hd⟩, by omega⟩
  · -- 3
    obtain ⟨r1, -, r3, -⟩ := hR
    obtain ⟨d0, c0⟩ := r3 rfl
    have ho := r1 (by omega)
    apply finish hN; apply primS hI hth hst
    · exact hs
    · exact fun _ => rfl
    · exact Or.inl ho
    · exact fun _ => rfl
    · intro h; rw [show ({ (gs σ.subs s) with disconnected := true } : Sub).outOwner = some i from ho] at h; cases h
    · intro k hk
      rw [show ({ (gs σ.subs s) with disconnected := true } : Sub).outOwner = some i from ho] at hk
      exact ⟨(Option.some.inj hk).symm, rfl, by omega⟩
    · intro s' hne h; exact absurd h.1.symm hne
    · refine TOK_top hT rfl rfl (setSub_length _ _ _) (mono_setSub _ _ _ (fun _ => rfl)) ⟨by simpa using hs, ?_⟩
      rw [gs_setSub_self _ _ _ hs]
      exact ⟨fun _ => ho, by omega, by omega, fun _ => ⟨rfl, c0⟩⟩
  · -- ≥ 4
    have h4 : 4 ≤ pc := by simp only [imp_false] at *; omega
    obtain ⟨r1, -, -, r4⟩ := hR
    obtain ⟨d1, c0⟩ := r4 h4
    split
    · next hc => rw [getSub_eq, c0] at hc; cases hc
    apply finish hN; apply primS hI hth hst
    · exact hs
    · exact fun h => h
    · exact Or.inl (r1 (by omega))
    · exact fun _ => d1
    · exact fun _ => d1
    · intro k hk; cases hk
    · intro s' hne h; exact absurd h.1.symm hne
    · refine TOK_pop hT (setSub_length _ _ _) (mono_setSub _ _ _ (fun h => h)) ?_
      intro x h; cases h
      rw [gs_setSub_self _ _ _ hs]; exact d1

theorem step_tDispatch {σ : Sys} {i : Nat} {th : Thread} {u : Upd} {pc : Nat} {rs : List Nat} {rest : List Frame}
    (h : Inv σ) (hth : σ.threads[i]? = some th) (hst : th.stack = .tDispatch u pc rs :: rest) :
    Inv (step σ i).σ := by
  obtain ⟨hI, hN⟩ := h
  have hp := hI.panic
  have hT := hI.thr i th hth
  rw [hst] at hT
  have hr := TOK_nonsub hT rfl
  subst hr
  have hrec : TOK σ.subs σ.tr i [.tDispatch u 9 (σ.tr.index.filter fun s => (getSub σ s).matches u)] := by
    intro x hx; exact hI.idx x (List.mem_filter.mp hx).1
  unfold step
  simp only [hp, hth, hst, Option.isSome_none, Bool.false_eq_true, if_false, hI.flags, rep4]
  split
  · -- 0
    split
    · apply finish hN; apply prim0 hI hth hst
      · intro s' h; exact h.elim
      · trivial
    · apply finish hN; apply prim0 hI hth hst
      · intro s' h; exact h.elim
      · intro x hx; cases hx
  · -- bolt 1
    split
    · exact ⟨hI, hN⟩
    · apply finish hN; apply primTv hI hth hst
      · rfl
      · intro s' h; exact h.elim
      · intro x hx; cases hx
  · -- bolt 2
    split
    · apply finish hN; apply primTv hI hth hst
      · rfl
      · intro s' h; exact h.elim
      · trivial
    · apply finish hN; apply primTv hI hth hst
      · rfl
      · intro s' h; exact h.elim
      · intro x hx; cases hx
  · -- bolt _
    apply finish hN; apply prim0 hI hth hst
    · intro s' h; exact h.elim
    · exact hrec
  · -- local 1
    split
    · exact ⟨hI, hN⟩
    · apply finish hN; apply primTv hI hth hst
      · rfl
      · intro s' h; exact h.elim
      · intro x hx; cases hx
  · -- local _
    apply finish hN; apply primTv hI hth hst
    · rfl
    · intro s' h; exact h.elim
    · exact hrec
  · exact absurd ‹true = false› (by decide)
  · exact absurd ‹true = false› (by decide)

theorem TOK_ready (subs : List Sub) (tr : Tr) (i s : Nat) (hs : s < subs.length) :
    TOK subs tr i [.sReady s 0 [], .tAdd s 7 0 [] .earliest] :=
  ⟨rfl, rfl, ⟨hs, RegR_zero _ _⟩, hs⟩

theorem step_tAdd {σ : Sys} {i : Nat} {th : Thread} {s pc toSeq : Nat} {scan : List (Nat × Upd)} {resp : Resp} {rest : List Frame}
    (h : Inv σ) (hth : σ.threads[i]? = some th) (hst : th.stack = .tAdd s pc toSeq scan resp :: rest) :
    Inv (step σ i).σ := by
  obtain ⟨hI, hN⟩ := h
  have hp := hI.panic
  have hT := hI.thr i th hth
  rw [hst] at hT
  have hr := TOK_nonsub hT rfl
  subst hr
  have hs : s < σ.subs.length := hT
  unfold step
  simp only [hp, hth, hst, Option.isSome_none, Bool.false_eq_true, if_false, hI.flags]
  split
  · -- 0
    split
    · apply finish hN; apply prim0 hI hth hst
      · intro s' h; exact h.elim
      · trivial
    · apply finish hN; apply prim0 hI hth hst
      · intro s' h; exact h.elim
      · exact hs
  · -- 1
    split
    · exact ⟨hI, hN⟩
    · apply finish hN; apply primTv hI hth hst
      · rfl
      · intro s' h; exact h.elim
      · exact hs
  · -- 2
    have hidx : ∀ x ∈ σ.tr.index ++ [s], x < σ.subs.length := by
      intro x hx
      rcases List.mem_append.mp hx with h | h
      · exact hI.idx x h
      · simp at h; subst h; exact hs
    split
    · split
      · apply finish hN; apply primSTv hI hth hst
        · intro b; rfl
        · intro s' h; exact h.elim
        · exact fun _ _ _ => ⟨rfl, rfl, rfl⟩
        · exact hidx
        · rfl
        · rfl
        · show s < _; simpa using hs
      · apply finish hN; apply primSTv hI hth hst
        · intro b; rfl
        · intro s' h; exact h.elim
        · exact fun _ _ _ => ⟨rfl, rfl, rfl⟩
        · exact hidx
        · rfl
        · rfl
        · exact TOK_ready _ _ _ _ (by simpa using hs)
    · split
      · apply finish hN; apply primSTv hI hth hst
        · intro b; rfl
        · intro s' h; exact h.elim
        · exact fun _ _ _ => ⟨rfl, rfl, rfl⟩
        · exact hidx
        · rfl
        · rfl
        · show s < _; simpa using hs
      · apply finish hN; apply primSTv hI hth hst
        · intro b; rfl
        · intro s' h; exact h.elim
        · exact fun _ _ _ => ⟨rfl, rfl, rfl⟩
        · exact hidx
        · rfl
        · rfl
        · exact TOK_ready _ _ _ _ (by simpa using hs)
  · -- 3
    split
    · apply finish hN; apply prim0 hI hth hst
      · intro s' h; exact h.elim
      · trivial
    split
    · apply finish hN; apply primTv hI hth hst
      · rfl
      · intro s' h; exact h.elim
      · exact hs
    · rw [List.append_nil]
      apply finish hN; apply primTv hI hth hst
      · rfl
      · intro s' h; exact h.elim
      · exact (scanLoop_ok _ _ _ _ _ _ _ _ _ _ hs).1
  · -- _
    split
    · apply finish hN; apply primSTv hI hth hst
      · intro b; rfl
      · intro s' h; exact h.elim
      · exact fun _ _ _ => ⟨rfl, rfl, rfl⟩
      · exact hI.idx
      · rfl
      · rfl
      · exact TOK_ready _ _ _ _ (by simpa using hs)
    · apply finish hN; apply primSv hI hth hst
      · intro b; rfl
      · intro s' h; exact h.elim
      · exact TOK_ready _ _ _ _ (by simpa using hs)

theorem step_tRemove {σ : Sys} {i : Nat} {th : Thread} {s pc : Nat} {rest : List Frame}
    (h : Inv σ) (hth : σ.threads[i]? = some th) (hst : th.stack = .tRemove s pc :: rest) :
    Inv (step σ i).σ := by
  obtain ⟨hI, hN⟩ := h
  have hp := hI.panic
  have hT := hI.thr i th hth
  rw [hst] at hT
  have hr := TOK_nonsub hT rfl
  subst hr
  unfold step
  simp only [hp, hth, hst, Option.isSome_none, Bool.false_eq_true, if_false]
  split
  · split
    · apply finish hN; apply prim0 hI hth hst
      · intro s' h; exact h.elim
      · trivial
    · apply finish hN; apply prim0 hI hth hst
      · intro s' h; exact h.elim
      · trivial
  · split
    · exact ⟨hI, hN⟩
    · apply finish hN; apply primTv hI hth hst
      · rfl
      · intro s' h; exact h.elim
      · trivial
  · apply finish hN; apply primT hI hth hst
    · intro s' h; exact h.elim
    · exact fun _ _ _ => ⟨rfl, rfl, rfl⟩
    · intro x hx; exact hI.idx x (List.mem_filter.mp hx).1
    · exact hI.done
    · trivial

theorem step_tList {σ : Sys} {i : Nat} {th : Thread} {rest : List Frame}
    (h : Inv σ) (hth : σ.threads[i]? = some th) (hst : th.stack = .tList :: rest) :
    Inv (step σ i).σ := by
  obtain ⟨hI, hN⟩ := h
  have hp := hI.panic
  have hT := hI.thr i th hth
  rw [hst] at hT
  have hr := TOK_nonsub hT rfl
  subst hr
  unfold step
  simp only [hp, hth, hst, Option.isSome_none, Bool.false_eq_true, if_false]
  split
  · exact ⟨hI, hN⟩
  · apply finish hN; apply prim0 hI hth hst
    · intro s' h; exact h.elim
    · trivial

theorem step_uRecv {σ : Sys} {i : Nat} {th : Thread} {s : Nat} {rest : List Frame}
    (h : Inv σ) (hth : σ.threads[i]? = some th) (hst : th.stack = .uRecv s :: rest) :
    Inv (step σ i).σ := by
  obtain ⟨hI, hN⟩ := h
  have hp := hI.panic
  have hT := hI.thr i th hth
  rw [hst] at hT
  have hr := TOK_nonsub hT rfl
  subst hr
  unfold step
  simp only [hp, hth, hst, Option.isSome_none, Bool.false_eq_true, if_false]
  split
  · apply finish hN; apply primSv hI hth hst
    · intro b; rfl
    · intro s' h; exact h.elim
    · trivial
  · apply finish hN; apply prim0 hI hth hst
    · intro s' h; exact h.elim
    · trivial

theorem step_tClose {σ : Sys} {i : Nat} {th : Thread} {pc : Nat} {todo : List Nat} {rest : List Frame}
    (h : Inv σ) (hth : σ.threads[i]? = some th) (hst : th.stack = .tClose pc todo :: rest) :
    Inv (step σ i).σ := by
  obtain ⟨hI, hN⟩ := h
  have hp := hI.panic
  have hT := hI.thr i th hth
  rw [hst] at hT
  have hr := TOK_nonsub hT rfl
  subst hr
  have hA := hN i th hth
  rw [hst] at hA
  obtain ⟨t1, t2, t3, t4⟩ : FrameOK σ.subs σ.tr i none (.tClose pc todo) := hT
  -- the walk: shared by bolt 3 / local ≥ 3
  have walk : 1 ≤ pc → ∀ n, Inv (normalize i (n + 8) (setThread (setTr σ fun t => { t with walked := t.index }) i
      fun t => retOf [.tClose 9 σ.tr.index] t none none)) := by
    intro h1 n
    obtain ⟨o1, o2⟩ := t1 h1
    apply finish hN; apply primT hI hth hst
    · intro s' h; exact h.elim
    · intro j hj hr; rw [o1] at hr; exact absurd (Option.some.inj hr).symm hj
    · exact hI.idx
    · intro hd; rw [show _ = σ.tr.onceDone from rfl, o2] at hd; cases hd
    · exact ⟨fun _ => ⟨o1, o2⟩, hI.idx, fun _ s' hs' => Or.inl hs', fun h => absurd rfl h⟩
  -- steps that keep the once-view and produce a `tClose pc' []`
  have keep : 1 ≤ pc → ∀ (g : Tr → Tr) pc' n, tv (g σ.tr) = tv σ.tr → pc' < 4 →
      Inv (normalize i (n + 8) (setThread (setTr σ g) i fun t => retOf [.tClose pc' []] t none none)) := by
    intro h1 g pc' n hg hpc'
    obtain ⟨o1, o2⟩ := t1 h1
    obtain ⟨e1, e2, e3, e4⟩ := tv_eq hg
    apply finish hN; apply primTv hI hth hst
    · exact hg
    · intro s' h; exact h.elim
    · exact ⟨fun _ => ⟨e1.trans o1, e2.trans o2⟩, fun x hx => (by cases hx), fun h => (by omega), fun _ => rfl⟩
  unfold step
  simp only [hp, hth, hst, Option.isSome_none, Bool.false_eq_true, if_false]
  split
  · -- 0
    split
    · apply finish hN; apply prim0 hI hth hst
      · intro s' h; exact h.elim
      · trivial
    next hnd =>
    split
    · exact ⟨hI, hN⟩
    next hno =>
    have hno : σ.tr.onceRunning = none := isSome_false hno
    apply finish hN; apply primT hI hth hst
    · intro s' h; exact h.elim
    · intro j hj hr; rw [hno] at hr; cases hr
    · exact hI.idx
    · intro hd; exact absurd hd hnd
    · refine ⟨fun _ => ⟨rfl, ?_⟩, fun x hx => (by cases hx), fun h => (by omega), fun _ => rfl⟩
      show σ.tr.onceDone = false
      cases h : σ.tr.onceDone
      · rfl
      · exact absurd h hnd
  · -- bolt 1
    exact keep (by omega) _ 2 _ rfl (by omega)
  · -- bolt 2
    split
    · exact ⟨hI, hN⟩
    · exact keep (by omega) _ 3 _ rfl (by omega)
  · -- bolt 3
    exact walk (by omega) _
  · -- bolt ≥ 4
    rename_i pc _ _ _ _ _ _ _
    have h4 : 4 ≤ pc := by simp only [imp_false] at *; omega
    have hne : pc ≠ 9 := by
      intro h9; subst h9; cases hA
    have htodo := t4 hne
    subst htodo
    obtain ⟨o1, o2⟩ := t1 (by omega)
    split
    · exact ⟨hI, hN⟩
    · apply finish hN; apply primT hI hth hst
      · intro s' h; exact h.elim
      · intro j hj hr; rw [o1] at hr; exact absurd (Option.some.inj hr).symm hj
      · exact hI.idx
      · intro _ x hx
        rcases t3 h4 x hx with h | h | h
        · cases h
        · cases h
        · exact h
      · trivial
  · -- local 1
    split
    · exact ⟨hI, hN⟩
    · exact keep (by omega) _ 2 _ rfl (by omega)
  · -- local 2
    exact keep (by omega) _ 3 _ rfl (by omega)
  · -- local ≥ 3
    rename_i pc _ _ _ _ _ _
    have h3 : 3 ≤ pc := by simp only [imp_false] at *; omega
    exact walk (by omega) _

theorem step_inv {σ : Sys} (h : Inv σ) (i : Nat) : Inv (step σ i).σ := by
  have hp := h.1.panic
  cases hth : σ.threads[i]? with
  | none => unfold step; simp only [hp, hth, Option.isSome_none, Bool.false_eq_true, if_false]; exact h
  | some th =>
    cases hst : th.stack with
    | nil => unfold step; simp only [hp, hth, hst, Option.isSome_none, Bool.false_eq_true, if_false]; exact h
    | cons fr rest =>
      cases fr with
      | sDispatch s u hist pc => exact step_sDispatch h hth hst
      | sReady s pc q => exact step_sReady h hth hst
      | sDisconnect s pc => exact step_sDisconnect h hth hst
      | tDispatch u pc rs => exact step_tDispatch h hth hst
      | tAdd s pc a b c => exact step_tAdd h hth hst
      | tRemove s pc => exact step_tRemove h hth hst
      | tClose pc todo => exact step_tClose h hth hst
      | tList => exact step_tList h hth hst
      | uRecv s => exact step_uRecv h hth hst

theorem run_inv : ∀ (sched : List Nat) {σ : Sys}, Inv σ → Inv (run σ sched)
  | [], _, h => h
  | i :: is, _, h => run_inv is (step_inv h i)

theorem gs_of_lt (subs : List Sub) (s : Nat) (h : s < subs.length) : gs subs s = subs[s] := by
  unfold gs
  rw [List.getD_eq_getElem?_getD, List.getElem?_eq_getElem h]; rfl

theorem gs_of_mem {subs : List Sub} {b : Sub} (h : b ∈ subs) : ∃ s, s < subs.length ∧ gs subs s = b := by
  obtain ⟨s, hs, e⟩ := List.mem_iff_getElem.mp h
  exact ⟨s, hs, by rw [gs_of_lt subs s hs, e]⟩

theorem init_inv (kind : Kind) (size : Nat) (subs : List Sub) (ops : List Op) (wf : WellFormed subs ops) :
    Inv (Sys.init Flags.repaired kind size subs ops) := by
  have hthr : ∀ (j : Nat) (th : Thread), (Sys.init Flags.repaired kind size subs ops).threads[j]? = some th →
      ∃ o ∈ ops, th.stack = o.start := by
    intro j th h
    simp only [Sys.init, List.getElem?_map] at h
    cases ho : ops[j]? with
    | none => rw [ho] at h; cases h
    | some o =>
      rw [ho] at h
      have : th = { op := o, stack := o.start } := by simpa using h.symm
      subst this
      exact ⟨o, List.mem_of_getElem? ho, rfl⟩
  refine ⟨⟨rfl, rfl, ?_, ?_, ?_, ?_⟩, ?_⟩
  · intro j th h
    obtain ⟨o, ho, e⟩ := hthr j th h
    rw [e]
    have hr := wf.inRange o ho
    cases o with
    | dispatch u => intro x hx; cases hx
    | add s => exact hr
    | remove s => trivial
    | close => exact ⟨fun h => (by omega), fun x hx => (by cases hx), fun h => (by omega), fun _ => rfl⟩
    | list => trivial
    | disconnect s => exact ⟨hr, RegX_zero _ _⟩
    | recv s => exact hr
  · intro s hs
    have hs' : s < subs.length := hs
    obtain ⟨topics, req, cap, e⟩ := wf.fresh (subs[s]) (List.getElem_mem hs')
    have : gs (Sys.init Flags.repaired kind size subs ops).subs s = Sub.fresh topics req cap := by
      show gs subs s = _
      rw [gs_of_lt subs s hs', e]
    unfold SubOK
    rw [this]
    exact ⟨fun h => (by cases h), fun _ => rfl, fun k h => (by cases h)⟩
  · intro s hs; cases hs
  · intro h; cases h
  · intro j th h
    obtain ⟨o, ho, e⟩ := hthr j th h
    rw [e]
    cases o <;> rfl

theorem reach_inv (kind : Kind) (size : Nat) (subs : List Sub) (ops : List Op) (wf : WellFormed subs ops)
    (sched : List Nat) : Inv (reach Flags.repaired kind size subs ops sched) :=
  run_inv sched (init_inv kind size subs ops wf)

theorem quiescent_sub {σ : Sys} (hI : InvW σ) (hq : σ.allDone = true) (s : Nat) (hs : s < σ.subs.length) :
    (gs σ.subs s).disconnected = (gs σ.subs s).outClosed := by
  obtain ⟨_, s4, s5⟩ := hI.sub s hs
  cases ho : (gs σ.subs s).outOwner with
  | none => exact s4 ho
  | some k =>
    obtain ⟨th, hth, hown⟩ := s5 k ho
    have hf : th.finished = true := by
      unfold Sys.allDone at hq
      exact List.all_eq_true.mp hq th (List.mem_of_getElem? hth)
    have : th.stack = [] := by
      unfold Thread.finished at hf
      simpa using hf
    rw [this] at hown
    exact hown.elim

/-! ### the theorems -/

variable (kind : Kind) (size : Nat) (subs : List Sub) (ops : List Op)

/-- No schedule reaches a send on / close of a closed channel. -/
theorem no_panic (wf : WellFormed subs ops) (sched : List Nat) :
    (reach Flags.repaired kind size subs ops sched).panic = none :=
  (reach_inv kind size subs ops wf sched).1.panic

/-- A closed channel is always flagged. -/
theorem closed_implies_flag (wf : WellFormed subs ops) (sched : List Nat) :
    ∀ b ∈ (reach Flags.repaired kind size subs ops sched).subs, b.outClosed = true → b.disconnected = true := by
  intro b hb
  obtain ⟨s, hs, e⟩ := gs_of_mem hb
  have := ((reach_inv kind size subs ops wf sched).1.sub s hs).1
  rw [e] at this
  exact this

/-- At quiescence a subscriber is flagged disconnected exactly when its stream has been ended
    (overflow, client or hub): never "cut off but left waiting". -/
theorem flag_iff_closed_at_quiescence (wf : WellFormed subs ops) (sched : List Nat)
    (hq : (reach Flags.repaired kind size subs ops sched).allDone = true) :
    ∀ b ∈ (reach Flags.repaired kind size subs ops sched).subs, b.disconnected = b.outClosed := by
  intro b hb
  obtain ⟨s, hs, e⟩ := gs_of_mem hb
  have := quiescent_sub (reach_inv kind size subs ops wf sched).1 hq s hs
  rw [e] at this
  exact this

/-- The send of a publisher never waits for a consumer: parked before a channel send, a thread always moves. -/
theorem send_never_waits (σ : Sys) (i : Nat) (th : Thread) (hth : σ.threads[i]? = some th) (hp : σ.panic = none)
    (h : (∃ s u hist rest, th.stack = .sDispatch s u hist 5 :: rest) ∨ (∃ s q rest, th.stack = .sReady s 3 q :: rest)) :
    (step σ i).moved = true := by
  obtain ⟨s, u, hist, rest, hst⟩ | ⟨s, q, rest, hst⟩ := h
  · unfold step
    simp only [hp, hth, hst, Option.isSome_none, Bool.false_eq_true, if_false]
    repeat' (first | rfl | split)
  · unfold step
    simp only [hp, hth, hst, Option.isSome_none, Bool.false_eq_true, if_false]
    repeat' (first | rfl | split)

/-- A thread only ever waits for a lock held by another thread, for the read transactions to end
    (db.Close) or for a running Once — never for the state of a subscriber's buffer. -/
theorem waits_only_for_locks (σ : Sys) (i : Nat) (th : Thread) (hth : σ.threads[i]? = some th) (hp : σ.panic = none)
    (hne : th.stack ≠ []) (hw : (step σ i).moved = false) :
    σ.tr.writer.isSome ∨ σ.tr.onceRunning.isSome ∨ σ.tr.readers > 0 ∨
    (∃ b ∈ σ.subs, b.liveOwner.isSome ∨ b.outOwner.isSome) := by
  unfold step at hw
  simp only [hp, hth, Option.isSome_none, Bool.false_eq_true, if_false] at hw
  split at hw
  · contradiction
  repeat' (first
    | (exact Bool.noConfusion hw)
    | (have := getSub_live σ _ ‹_›; simp only [this, or_true])
    | (have := getSub_out σ _ ‹_›; simp only [this, or_true])
    | (simp only [*, true_or, or_true]; done)
    | split at hw)

/-- When Close has returned every subscriber it found registered is flagged (its stream is ended
    or is being ended by the thread that overflowed it)… -/
theorem close_flags_registered (wf : WellFormed subs ops) (sched : List Nat)
    (hd : (reach Flags.repaired kind size subs ops sched).tr.onceDone = true) :
    ∀ s ∈ (reach Flags.repaired kind size subs ops sched).tr.walked,
      (getSub (reach Flags.repaired kind size subs ops sched) s).disconnected = true :=
  (reach_inv kind size subs ops wf sched).1.done hd

/-- …and at quiescence its stream is ended. -/
theorem close_ends_registered (wf : WellFormed subs ops) (sched : List Nat)
    (hq : (reach Flags.repaired kind size subs ops sched).allDone = true)
    (hd : (reach Flags.repaired kind size subs ops sched).tr.onceDone = true) :
    ∀ s ∈ (reach Flags.repaired kind size subs ops sched).tr.walked,
      (getSub (reach Flags.repaired kind size subs ops sched) s).outClosed = true := by
  intro s hs
  have hI := (reach_inv kind size subs ops wf sched).1
  have hdisc : (gs (reach Flags.repaired kind size subs ops sched).subs s).disconnected = true := hI.done hd s hs
  have hlt : s < (reach Flags.repaired kind size subs ops sched).subs.length := by
    apply Nat.lt_of_not_le
    intro hle
    rw [gs_oob _ _ hle] at hdisc
    cases hdisc
  have := quiescent_sub hI hq s hlt
  rw [getSub_eq, ← this]
  exact hdisc

/-- Once closed, always closed; an operation that starts afterwards is rejected and changes nothing. -/
theorem closed_is_stable (σ : Sys) (i : Nat) (h : σ.tr.closedCh = true) : (step σ i).σ.tr.closedCh = true := by
  unfold step
  split
  · exact h
  split
  · exact h
  split
  · exact h
  simp only
  repeat' (first
    | exact h
    | (simp only [normalize_closedCh, setThread_tr, setTr_tr, setSub_tr]; try (first | exact h | rfl))
    | split)

theorem after_close_rejected (σ : Sys) (i : Nat) (th : Thread) (hth : σ.threads[i]? = some th) (hp : σ.panic = none)
    (hc : σ.tr.closedCh = true)
    (h : (∃ u, th.stack = [.tDispatch u 0 []]) ∨ (∃ s, th.stack = [.tAdd s 0 0 [] .earliest]) ∨ (∃ s, th.stack = [.tRemove s 0])) :
    (step σ i).σ.tr = σ.tr ∧ (step σ i).σ.subs = σ.subs ∧
    ((step σ i).σ.threads[i]?.bind (·.ret)) = some .errClosed := by
  have key : (step σ i).σ = setThread σ i (fun t => retOf [] t (some .errClosed) none) := by
    have hn : ∀ n, normalize i n (setThread σ i (fun t => retOf [] t (some .errClosed) none))
        = setThread σ i (fun t => retOf [] t (some .errClosed) none) := by
      intro n
      apply normalize_of_none
      apply admin_nil _ _ (retOf [] th (some .errClosed) none)
      · rw [setThread_get]; simp [hth]
      · rfl
    obtain ⟨u, hst⟩ | ⟨s, hst⟩ | ⟨s, hst⟩ := h
    all_goals
      unfold step
      simp only [hp, hth, hst, hc, Option.isSome_none, Bool.false_eq_true, if_false, if_true, hn]
  rw [key]
  refine ⟨rfl, rfl, ?_⟩
  rw [setThread_get]
  simp [hth, retOf]

end Mercure.Sys.Safety

#print axioms Mercure.Sys.Safety.no_panic
#print axioms Mercure.Sys.Safety.closed_implies_flag
#print axioms Mercure.Sys.Safety.flag_iff_closed_at_quiescence
#print axioms Mercure.Sys.Safety.send_never_waits
#print axioms Mercure.Sys.Safety.waits_only_for_locks
#print axioms Mercure.Sys.Safety.close_flags_registered
#print axioms Mercure.Sys.Safety.close_ends_registered
#print axioms Mercure.Sys.Safety.closed_is_stable
#print axioms Mercure.Sys.Safety.after_close_rejected
