import Mercure.Model.Basic
/-
  Mercure.Model.Sys — the hub's shared-state objects at the granularity of their synchronisation
  operations (DESIGN §4.3): LocalSubscriber (two atomics, two mutexes, one bounded channel, one
  queue), BoltTransport / LocalTransport (RW lock, closed channel, Once, subscriber index, the DB).

  A *thread* runs one public operation; a *step* of a thread executes the synchronisation operation
  it is parked before (the label the instrumented source yields) together with the thread-local code
  that follows it, up to the next synchronisation operation. `step` is total: a disabled thread
  (waiting for a lock / for readers) does not move.

  `Flags` selects between the code as found and the repaired code; the flags in force are
  *regenerated from /repo's sources on every run* (Generated/Facts.lean).
-/
namespace Mercure.Sys

structure Flags where
  closeOnOverflow   : Bool   -- handleFullChan closes s.out after setting the flag
  readyGuard        : Bool   -- Ready re-reads `disconnected` under both mutexes before flushing
  disconnectRecheck : Bool   -- Disconnect re-reads `disconnected` under outMutex
  localMatchLocked  : Bool   -- LocalTransport.Dispatch holds the transport lock around MatchAny + fan-out
  lastSeqOnOpen     : Bool   -- BoltTransport reloads lastSeq from the bucket sequence on open
  cutBeforeDispatch : Bool   -- history scan stops *before* an entry with seq > toSeq (no `toSeq > 0` escape)
  deriving DecidableEq, Repr

def Flags.found : Flags := ⟨false, false, false, false, false, false⟩
def Flags.repaired : Flags := ⟨true, true, true, true, true, true⟩

/-- An update: its id and the single topic it is matched by. -/
structure Upd where
  id    : Nat
  topic : Nat
  deriving DecidableEq, Repr

inductive Req where | none | earliest | id (n : Nat)
  deriving DecidableEq, Repr

/-- Response last-event-id: `earliest` or an update id. -/
inductive Resp where | earliest | id (n : Nat)
  deriving DecidableEq, Repr

structure Sub where
  topics       : List Nat               -- the subscriber matches updates on these topics
  req          : Req := .none           -- RequestLastEventID
  cap          : Nat := 3               -- channel capacity (1000 in /repo; a model parameter)
  disconnected : Bool := false
  ready        : Bool := false
  liveOwner    : Option Nat := none     -- thread holding liveMutex
  outOwner     : Option Nat := none     -- thread holding outMutex
  out          : List Upd := []
  outClosed    : Bool := false
  liveQueue    : List Upd := []
  resp         : Option Resp := none    -- responseLastEventID (buffered 1)
  received     : List Upd := []         -- what the consumer has taken so far
  enq          : List Upd := []         -- ghost: every successful channel send, in order
  joinedAt     : Option Nat := none     -- ghost: number of accepted updates when the subscriber was indexed
  deriving Repr

def Sub.matches (s : Sub) (u : Upd) : Bool := s.topics.contains u.topic

inductive Kind where | bolt | «local»
  deriving DecidableEq, Repr

structure Tr where
  kind        : Kind
  writer      : Option Nat := none      -- thread holding the transport lock exclusively
  closedCh    : Bool := false           -- close(t.closed) happened
  onceRunning : Option Nat := none      -- thread inside closedOnce.Do
  onceDone    : Bool := false
  index       : List Nat := []          -- subscriber ids in the SubscriberList
  db          : List (Nat × Upd) := []
  bucket      : Bool := false           -- the bucket exists (created by the first persist)
  seq         : Nat := 0                -- bucket sequence
  lastSeq     : Nat := 0                -- the in-memory field
  lastId      : Resp := .earliest
  dbClosed    : Bool := false
  readers     : Nat := 0
  size        : Nat := 0                -- retention; cleanup runs on every persist
  accepted    : List Upd := []          -- ghost: persisted (Bolt) / entered fan-out (local), in order
  walked      : List Nat := []          -- ghost: the subscribers Close found in the index
  deriving Repr

inductive Op where
  | dispatch (u : Upd)
  | add (s : Nat)
  | remove (s : Nat)
  | close
  | list
  | disconnect (s : Nat)      -- the connection handler's shutdown calls s.Disconnect()
  | recv (s : Nat)            -- the consumer takes one update if one is buffered
  deriving DecidableEq, Repr

/-- Result an operation returned. -/
inductive Ret where
  | ok | errClosed | errDb | listed (last : Resp) (subs : List Nat) | got (u : Option Upd) (open_ : Bool)
  deriving DecidableEq, Repr

/-- Activation records. `pc` counts the synchronisation operations of the procedure. -/
inductive Frame where
  | sDispatch (s : Nat) (u : Upd) (hist : Bool) (pc : Nat)
  | sReady (s : Nat) (pc : Nat) (rest : List Upd)
  | sDisconnect (s : Nat) (pc : Nat)
  | tDispatch (u : Upd) (pc : Nat) (recips : List Nat)
  | tAdd (s : Nat) (pc : Nat) (toSeq : Nat) (scan : List (Nat × Upd)) (resp : Resp)
  | tRemove (s : Nat) (pc : Nat)
  | tClose (pc : Nat) (todo : List Nat)
  | tList
  | uRecv (s : Nat)
  deriving DecidableEq, Repr

structure Thread where
  op     : Op
  stack  : List Frame
  ret    : Option Ret := none       -- set when the operation returned
  last   : Option Bool := none      -- return value of the callee that just returned (s.Dispatch)
  deriving Repr

structure Sys where
  flags   : Flags
  tr      : Tr
  subs    : List Sub
  threads : List Thread
  panic   : Option String := none
  deriving Repr

def Op.start : Op → List Frame
  | .dispatch u => [.tDispatch u 0 []]
  | .add s => [.tAdd s 0 0 [] .earliest]
  | .remove s => [.tRemove s 0]
  | .close => [.tClose 0 []]
  | .list => [.tList]
  | .disconnect s => [.sDisconnect s 0]
  | .recv s => [.uRecv s]

def Sys.init (flags : Flags) (kind : Kind) (size : Nat) (subs : List Sub) (ops : List Op) : Sys :=
  { flags, tr := { kind, size }, subs, threads := ops.map (fun o => { op := o, stack := o.start }) }

def getSub (σ : Sys) (s : Nat) : Sub := σ.subs.getD s { topics := [] }
def setSub (σ : Sys) (s : Nat) (f : Sub → Sub) : Sys :=
  { σ with subs := σ.subs.zipIdx.map (fun p => if p.2 == s then f p.1 else p.1) }
def setTr (σ : Sys) (f : Tr → Tr) : Sys := { σ with tr := f σ.tr }

/-- The label the instrumented source reports for the operation a frame is parked before. -/
def Frame.label (fl : Flags) (kind : Kind) : Frame → String
  | .sDispatch _ _ _ pc =>
    match pc with
    | 0 => "load(s.disconnected)" | 1 => "load(s.ready)" | 2 => "s.liveMutex.Lock" | 3 => "s.outMutex.Lock"
    | 4 => "load(s.disconnected)" | 5 => "select{s.out<-|default}" | 6 => "store(s.disconnected)" | _ => "close(s.out)"
  | .sReady _ pc _ =>
    match pc with
    | 0 => "s.liveMutex.Lock" | 1 => "s.outMutex.Lock" | 2 => "load(s.disconnected)" | 3 => "select{s.out<-|default}"
    | 4 => "store(s.disconnected)" | 5 => "close(s.out)" | _ => "store(s.ready)"
  | .sDisconnect _ pc =>
    match pc with
    | 0 => "load(s.disconnected)" | 1 => "s.outMutex.Lock" | 2 => "load(s.disconnected)" | 3 => "store(s.disconnected)" | _ => "close(s.out)"
  | .tDispatch _ pc _ =>
    match kind, fl.localMatchLocked, pc with
    | _, _, 0 => "select{<-t.closed|default}"
    | .bolt, _, 1 => "t.Lock" | .bolt, _, 2 => "db.Update" | .bolt, _, _ => "sl.MatchAny"
    | .local, true, 1 => "t.Lock" | .local, true, _ => "sl.MatchAny"
    | .local, false, 1 => "sl.MatchAny" | .local, false, _ => "t.Lock"
  | .tAdd _ pc _ _ _ =>
    match pc with
    | 0 => "select{<-t.closed|default}" | 1 => "t.Lock" | 2 => "sl.Add" | 3 => "db.View" | _ => "s.responseLastEventID<-"
  | .tRemove _ pc => match pc with | 0 => "select{<-t.closed|default}" | 1 => "t.Lock" | _ => "sl.Remove"
  | .tClose pc _ =>
    match kind, pc with
    | _, 0 => "once.Do"
    | .bolt, 1 => "close(t.closed)" | .bolt, 2 => "t.Lock" | .bolt, 3 => "sl.Walk" | .bolt, _ => "db.Close"
    | .local, 1 => "t.Lock" | .local, 2 => "close(t.closed)" | .local, _ => "sl.Walk"
  | .tList => "t.RLock"
  | .uRecv _ => "recv"

/-- Retention as in `cleanup` (every persist): delete every key ≤ last − size. -/
def retain (size last : Nat) (db : List (Nat × Upd)) : List (Nat × Upd) :=
  if size == 0 || size ≥ last then db else db.filter (fun e => e.1 > last - size)

/-- Entries the history scan still has to look at, after skipping up to the requested id, and the
    response id computed by the skipping phase. -/
def scanFrom (db : List (Nat × Upd)) : Req → Resp × List (Nat × Upd)
  | .none => (.earliest, [])
  | .earliest => (.earliest, db)
  | .id n =>
    let rec go : List (Nat × Upd) → Resp → Resp × List (Nat × Upd)
      | [], last => (last, [])
      | e :: rest, _ => if e.2.id == n then (.id n, rest) else go rest (.id e.2.id)
    go db .earliest

structure StepOut where
  σ : Sys
  moved : Bool          -- false: the thread is waiting (lock / readers / Once) or has finished

/-- Replace thread `i`'s stack (and optionally record its return). -/
def setThread (σ : Sys) (i : Nat) (f : Thread → Thread) : Sys :=
  { σ with threads := σ.threads.zipIdx.map (fun p => if p.2 == i then f p.1 else p.1) }

def retOf (fr : List Frame) (t : Thread) (r : Option Ret) (last : Option Bool) : Thread :=
  { t with stack := fr, ret := (if fr.isEmpty then (r.orElse fun _ => some .ok) else t.ret), last := last }

/-- History loop of `dispatchHistory` between two synchronisation operations: skip entries that do
    not match; stop at the cut-off; otherwise call `s.Dispatch(update, true)` for the next match. -/
def scanLoop (fl : Flags) (sb : Sub) (s toSeq : Nat) : Nat → List (Nat × Upd) → Resp → List Frame
  | _, [], resp => [.tAdd s 4 toSeq [] resp]
  | 0, _, resp => [.tAdd s 4 toSeq [] resp]
  | fuel + 1, e :: more, resp =>
    if fl.cutBeforeDispatch && e.1 > toSeq then [.tAdd s 4 toSeq [] resp]
    else if sb.matches e.2 then [.sDispatch s e.2 true 0, .tAdd s 8 toSeq (e :: more) resp]
    else if !fl.cutBeforeDispatch && (toSeq > 0 && e.1 ≥ toSeq) then [.tAdd s 4 toSeq [] resp]
    else scanLoop fl sb s toSeq fuel more resp

/-- Administrative transitions: what a thread does, without parking, when a callee has returned.
    `none` = the top frame is parked before a synchronisation operation (or the stack is empty). -/
def admin (σ : Sys) (i : Nat) : Option Sys :=
  match σ.threads[i]? with
  | none => none
  | some th =>
  let fl := σ.flags
  let t := σ.tr
  let cont (σ : Sys) (stack : List Frame) (r : Option Ret := none) : Option Sys :=
    some (setThread σ i (fun t => retOf stack t r none))
  match th.stack with
  | .tDispatch u 9 recips :: rest =>
    match recips with
    | s :: rs' => cont σ (.sDispatch s u false 0 :: .tDispatch u 9 rs' :: rest)
    | [] =>
      match t.kind, fl.localMatchLocked with
      | .local, false => cont σ (.tDispatch u 2 [] :: rest)
      | .local, true => cont (setTr σ fun t => { t with writer := none, lastId := .id u.id }) rest (some .ok)
      | .bolt, _ => cont (setTr σ fun t => { t with writer := none }) rest (some .ok)
  | .tAdd s 8 toSeq scan resp :: rest =>
    match scan with
    | [] => cont σ (.tAdd s 4 toSeq [] resp :: rest)
    | e :: more =>
      if th.last == some false then cont σ (.tAdd s 4 toSeq [] resp :: rest)
      else if !fl.cutBeforeDispatch && (toSeq > 0 && e.1 ≥ toSeq) then cont σ (.tAdd s 4 toSeq [] resp :: rest)
      else cont σ (scanLoop fl (getSub σ s) s toSeq (more.length + 1) more resp ++ rest)
  | .tAdd _ 7 _ _ _ :: rest =>       -- Ready returned: AddSubscriber returns (local: the deferred Unlock runs)
    match t.kind with
    | .local => cont (setTr σ fun t => { t with writer := none }) rest (some .ok)
    | .bolt => cont σ rest (some .ok)
  | .tClose 9 todo :: rest =>
    match todo with
    | s :: more => cont σ (.sDisconnect s 0 :: .tClose 9 more :: rest)
    | [] =>
      match t.kind with
      | .bolt => cont σ (.tClose 4 [] :: rest)
      | .local => cont (setTr σ fun t => { t with writer := none, onceRunning := none, onceDone := true }) rest (some .ok)
  | _ => none

def normalize (i : Nat) : Nat → Sys → Sys
  | 0, σ => σ
  | fuel + 1, σ => match admin σ i with | some σ' => normalize i fuel σ' | none => σ

/-- One step of thread `i`: the synchronisation operation it is parked before, then the
    thread-local code up to the next one. -/
def step (σ : Sys) (i : Nat) : StepOut :=
  if σ.panic.isSome then ⟨σ, false⟩ else
  match σ.threads[i]? with
  | none => ⟨σ, false⟩
  | some th =>
  match th.stack with
  | [] => ⟨σ, false⟩
  | fr :: rest =>
  let fl := σ.flags
  let cont (σ : Sys) (stack : List Frame) (last : Option Bool := none) (r : Option Ret := none) : StepOut :=
    ⟨normalize i (σ.subs.length + 8) (setThread σ i (fun t => retOf stack t r last)), true⟩
  let wait : StepOut := ⟨σ, false⟩
  let boom (msg : String) : StepOut := ⟨{ σ with panic := some msg }, true⟩
  match fr with
  -- ---------------------------------------------------------------- LocalSubscriber.Dispatch
  | .sDispatch s u hist pc =>
    let sb := getSub σ s
    match pc with
    | 0 => if sb.disconnected then cont σ rest (some false) else cont σ (.sDispatch s u hist 1 :: rest)
    | 1 => if !hist && !sb.ready then cont σ (.sDispatch s u hist 2 :: rest) else cont σ (.sDispatch s u hist 3 :: rest)
    | 2 => -- liveMutex region: queue the update if still not ready
      if sb.liveOwner.isSome then wait
      else if !sb.ready then cont (setSub σ s fun b => { b with liveQueue := b.liveQueue ++ [u] }) rest (some true)
      else cont σ (.sDispatch s u hist 3 :: rest)
    | 3 => if sb.outOwner.isSome then wait else cont (setSub σ s fun b => { b with outOwner := some i }) (.sDispatch s u hist 4 :: rest)
    | 4 => if sb.disconnected then cont (setSub σ s fun b => { b with outOwner := none }) rest (some false)
           else cont σ (.sDispatch s u hist 5 :: rest)
    | 5 =>
      if sb.outClosed then boom "send on closed channel"
      else if sb.out.length < sb.cap then
        cont (setSub σ s fun b => { b with out := b.out ++ [u], enq := b.enq ++ [u], outOwner := none }) rest (some true)
      else cont σ (.sDispatch s u hist 6 :: rest)
    | 6 => -- handleFullChan
      if fl.closeOnOverflow then cont (setSub σ s fun b => { b with disconnected := true }) (.sDispatch s u hist 7 :: rest)
      else cont (setSub σ s fun b => { b with disconnected := true, outOwner := none }) rest (some false)
    | _ =>
      if sb.outClosed then boom "close of closed channel"
      else cont (setSub σ s fun b => { b with outClosed := true, outOwner := none }) rest (some false)
  -- ---------------------------------------------------------------- LocalSubscriber.Ready
  | .sReady s pc q =>
    let sb := getSub σ s
    let flush (σ : Sys) (q : List Upd) : StepOut :=
      match q with
      | [] => cont σ (.sReady s 6 [] :: rest)
      | _ :: _ => cont σ (.sReady s 3 q :: rest)
    match pc with
    | 0 => if sb.liveOwner.isSome then wait else cont (setSub σ s fun b => { b with liveOwner := some i }) (.sReady s 1 [] :: rest)
    | 1 => if sb.outOwner.isSome then wait else
           let σ' := setSub σ s fun b => { b with outOwner := some i }
           if fl.readyGuard then cont σ' (.sReady s 2 sb.liveQueue :: rest) else flush σ' sb.liveQueue
    | 2 => if sb.disconnected then cont (setSub σ s fun b => { b with outOwner := none, liveOwner := none }) rest
           else flush σ q
    | 3 =>
      match q with
      | [] => cont σ (.sReady s 6 [] :: rest)
      | u :: q' =>
        if sb.outClosed then boom "send on closed channel"
        else if sb.out.length < sb.cap then flush (setSub σ s fun b => { b with out := b.out ++ [u], enq := b.enq ++ [u] }) q'
        else cont σ (.sReady s 4 q :: rest)
    | 4 => -- handleFullChan inside Ready; Ready then releases liveMutex and returns
      if fl.closeOnOverflow then cont (setSub σ s fun b => { b with disconnected := true }) (.sReady s 5 q :: rest)
      else cont (setSub σ s fun b => { b with disconnected := true, outOwner := none, liveOwner := none }) rest
    | 5 =>
      if sb.outClosed then boom "close of closed channel"
      else cont (setSub σ s fun b => { b with outClosed := true, outOwner := none, liveOwner := none }) rest
    | _ => cont (setSub σ s fun b => { b with ready := true, outOwner := none, liveOwner := none }) rest
  -- ---------------------------------------------------------------- LocalSubscriber.Disconnect
  | .sDisconnect s pc =>
    let sb := getSub σ s
    match pc with
    | 0 => if sb.disconnected then cont σ rest else cont σ (.sDisconnect s 1 :: rest)
    | 1 => if sb.outOwner.isSome then wait else
           cont (setSub σ s fun b => { b with outOwner := some i }) (.sDisconnect s (if fl.disconnectRecheck then 2 else 3) :: rest)
    | 2 => if sb.disconnected then cont (setSub σ s fun b => { b with outOwner := none }) rest else cont σ (.sDisconnect s 3 :: rest)
    | 3 => cont (setSub σ s fun b => { b with disconnected := true }) (.sDisconnect s 4 :: rest)
    | _ => if sb.outClosed then boom "close of closed channel"
           else cont (setSub σ s fun b => { b with outClosed := true, outOwner := none }) rest
  -- ---------------------------------------------------------------- Transport.Dispatch
  | .tDispatch u pc _ =>
    let t := σ.tr
    let recipients (t : Tr) : List Nat := t.index.filter (fun s => (getSub σ s).matches u)
    match t.kind, fl.localMatchLocked, pc with
    | _, _, 0 => if t.closedCh then cont σ rest none (some .errClosed) else cont σ (.tDispatch u 1 [] :: rest)
    | .bolt, _, 1 => if t.writer.isSome then wait else cont (setTr σ fun t => { t with writer := some i }) (.tDispatch u 2 [] :: rest)
    | .bolt, _, 2 =>
      if t.dbClosed then cont (setTr σ fun t => { t with writer := none }) rest none (some .errDb)
      else
        let seq := t.seq + 1
        cont (setTr σ fun t => { t with seq := seq, lastSeq := seq, lastId := .id u.id, bucket := true,
                                        db := retain t.size seq (t.db ++ [(seq, u)]), accepted := t.accepted ++ [u] })
             (.tDispatch u 3 [] :: rest)
    | .bolt, _, _ => cont σ (.tDispatch u 9 (recipients t) :: rest)
    | .local, true, 1 => if t.writer.isSome then wait else cont (setTr σ fun t => { t with writer := some i }) (.tDispatch u 2 [] :: rest)
    | .local, true, _ => cont (setTr σ fun t => { t with accepted := t.accepted ++ [u] }) (.tDispatch u 9 (recipients t) :: rest)
    | .local, false, 1 => cont (setTr σ fun t => { t with accepted := t.accepted ++ [u] }) (.tDispatch u 9 (recipients t) :: rest)
    | .local, false, _ => -- t.Lock; t.lastEventID = id; t.Unlock
      if t.writer.isSome then wait else cont (setTr σ fun t => { t with lastId := .id u.id }) rest none (some .ok)
  -- ---------------------------------------------------------------- Transport.AddSubscriber
  | .tAdd s pc toSeq _ resp =>
    let t := σ.tr
    let sb := getSub σ s
    match pc with
    | 0 => if t.closedCh then cont σ rest none (some .errClosed) else cont σ (.tAdd s 1 0 [] .earliest :: rest)
    | 1 => if t.writer.isSome then wait else cont (setTr σ fun t => { t with writer := some i }) (.tAdd s 2 0 [] .earliest :: rest)
    | 2 =>
      match t.kind with
      | .local => -- the transport lock is held until AddSubscriber returns (defer)
        let σ := setSub σ s fun b => { b with joinedAt := some t.accepted.length }
        let σ' := setTr σ fun t => { t with index := t.index ++ [s] }
        if sb.req != .none then cont σ' (.tAdd s 4 0 [] .earliest :: rest)
        else cont σ' (.sReady s 0 [] :: .tAdd s 7 0 [] .earliest :: rest)
      | .bolt =>
        let σ := setSub σ s fun b => { b with joinedAt := some t.accepted.length }
        let σ' := setTr σ fun t => { t with index := t.index ++ [s], writer := none }
        if sb.req != .none then cont σ' (.tAdd s 3 t.lastSeq [] .earliest :: rest)
        else cont σ' (.sReady s 0 [] :: .tAdd s 7 0 [] .earliest :: rest)
    | 3 => -- db.View: snapshot
      if t.dbClosed then cont σ rest none (some .errDb)
      else if !t.bucket then cont (setTr σ fun t => { t with readers := t.readers + 1 }) (.tAdd s 4 toSeq [] .earliest :: rest)
      else
        let (r0, todo) := scanFrom t.db sb.req
        cont (setTr σ fun t => { t with readers := t.readers + 1 }) (scanLoop fl sb s toSeq (todo.length + 1) todo r0 ++ rest)
    | _ => -- 4: HistoryDispatched(resp); the read transaction ends; then Ready
      let σ' := setSub σ s fun b => { b with resp := some resp }
      let σ' := match t.kind with | .bolt => setTr σ' (fun t => { t with readers := t.readers - 1 }) | .local => σ'
      cont σ' (.sReady s 0 [] :: .tAdd s 7 0 [] .earliest :: rest)
  -- ---------------------------------------------------------------- Transport.RemoveSubscriber
  | .tRemove s pc =>
    let t := σ.tr
    match pc with
    | 0 => if t.closedCh then cont σ rest none (some .errClosed) else cont σ (.tRemove s 1 :: rest)
    | 1 => if t.writer.isSome then wait else cont (setTr σ fun t => { t with writer := some i }) (.tRemove s 2 :: rest)
    | _ => cont (setTr σ fun t => { t with index := t.index.filter (· != s), writer := none }) rest none (some .ok)
  -- ---------------------------------------------------------------- Transport.Close
  | .tClose pc _ =>
    let t := σ.tr
    match t.kind, pc with
    | _, 0 =>
      if t.onceDone then cont σ rest none (some .ok)
      else if t.onceRunning.isSome then wait
      else cont (setTr σ fun t => { t with onceRunning := some i }) (.tClose 1 [] :: rest)
    | .bolt, 1 => cont (setTr σ fun t => { t with closedCh := true }) (.tClose 2 [] :: rest)
    | .bolt, 2 => if t.writer.isSome then wait else cont (setTr σ fun t => { t with writer := some i }) (.tClose 3 [] :: rest)
    | .bolt, 3 => cont (setTr σ fun t => { t with walked := t.index }) (.tClose 9 t.index :: rest)
    | .bolt, _ =>
      if t.readers > 0 then wait
      else cont (setTr σ fun t => { t with dbClosed := true, writer := none, onceRunning := none, onceDone := true }) rest none (some .ok)
    | .local, 1 => if t.writer.isSome then wait else cont (setTr σ fun t => { t with writer := some i }) (.tClose 2 [] :: rest)
    | .local, 2 => cont (setTr σ fun t => { t with closedCh := true }) (.tClose 3 [] :: rest)
    | .local, _ => cont (setTr σ fun t => { t with walked := t.index }) (.tClose 9 t.index :: rest)
  -- ---------------------------------------------------------------- GetSubscribers / consumer
  | .tList => if σ.tr.writer.isSome then wait else cont σ rest none (some (.listed σ.tr.lastId σ.tr.index))
  | .uRecv s =>
    let sb := getSub σ s
    match sb.out with
    | u :: more => cont (setSub σ s fun b => { b with out := more, received := b.received ++ [u] }) rest none (some (.got (some u) true))
    | [] => cont σ rest none (some (.got none (!sb.outClosed)))

/-- Run a schedule: picks of threads that cannot move are skipped. -/
def run (σ : Sys) : List Nat → Sys
  | [] => σ
  | i :: is => run (step σ i).σ is

/-- A restart of the Bolt transport: volatile state vanishes, the committed DB stays. -/
def restart (σ : Sys) (subs : List Sub) (ops : List Op) : Sys :=
  { flags := σ.flags,
    tr := { kind := σ.tr.kind, size := σ.tr.size, db := σ.tr.db, bucket := σ.tr.bucket, seq := σ.tr.seq,
            lastSeq := if σ.flags.lastSeqOnOpen then σ.tr.seq else 0,
            lastId := (match σ.tr.db.getLast? with | some e => .id e.2.id | none => .earliest),
            accepted := σ.tr.accepted },
    subs := subs, threads := ops.map (fun o => { op := o, stack := o.start }) }

/-! ### vocabulary for the theorems -/

/-- A subscriber as `NewLocalSubscriber` creates it. -/
def Sub.fresh (topics : List Nat) (req : Req) (cap : Nat) : Sub := { topics, req, cap }

/-- Configurations the harness (and the hub) produce: fresh subscribers, each registered at most once. -/
structure WellFormed (subs : List Sub) (ops : List Op) : Prop where
  fresh : ∀ b ∈ subs, ∃ topics req cap, b = Sub.fresh topics req cap
  addOnce : (ops.filterMap (fun o => match o with | .add s => some s | _ => none)).Nodup
  inRange : ∀ o ∈ ops, match o with
    | .add s | .remove s | .disconnect s | .recv s => s < subs.length
    | _ => True

def Thread.finished (t : Thread) : Bool := t.stack.isEmpty
def Sys.allDone (σ : Sys) : Bool := σ.threads.all Thread.finished

/-- Every state reachable by some schedule from an initial configuration. -/
def reach (flags : Flags) (kind : Kind) (size : Nat) (subs : List Sub) (ops : List Op) (sched : List Nat) : Sys :=
  run (Sys.init flags kind size subs ops) sched

/-- The stored updates a reconnecting subscriber is owed, given what was accepted before it was
    indexed (`old`): everything (earliest), what follows the requested id, or nothing (unknown / none). -/
def owed (old : List Upd) : Req → List Upd
  | .none => []
  | .earliest => old
  | .id n => match old.dropWhile (fun u => u.id != n) with | [] => [] | _ :: rest => rest

/-- What a subscriber indexed after `k` accepted updates would receive had it stayed connected and
    kept up: the owed part of the first `k`, then every later one — those it matches. -/
def ideal (s : Sub) (accepted : List Upd) (k : Nat) : List Upd :=
  (owed (accepted.take k) s.req ++ accepted.drop k).filter s.matches

end Mercure.Sys
