import Mercure.Lemmas.BoltStore
import Mercure.Lemmas.Retention
import Mercure.Lemmas.Hub
import Mercure.Lemmas.SysStream
import Mercure.Model.Sys
import Mercure.Generated.Facts
/-
  C07 — Reconnection replays exactly the missed updates, then continues live seamlessly.

  Two layers:
  * operation level (Mercure.Hub model: nothing is published *during* a registration): what is
    negotiated and replayed, for every history incl. retention and restarts;
  * region level (Mercure.Sys): publishes placed anywhere relative to registration / history scan /
    go-live, any number of threads, every schedule: the stream is a gap-free prefix of the ideal
    sequence, and the whole of it at quiescence (`junction_*` below). `Sys.ideal b accepted k` =
    (the stored updates owed after the requested id — or all for 'earliest' — among the first k
    accepted, then everything accepted after the subscriber was indexed) filtered to what it
    matches: what it would have received had it stayed connected.
-/
namespace Mercure.C07
open Mercure

/-- A reconnection with the id of a retained update replays exactly the accepted updates that
    follow it (unique ids), for every retention size and cleanup coin sequence. -/
theorem replay_after_retained_id (size : Nat) (ps : List (Bool × Update))
    (huniq : ((ps.map (·.2)).map (·.id)).Nodup) (hne : ∀ p ∈ ps, p.2.id ≠ earliest)
    (i : Nat) (e : Nat × Update) (he : (rRun size ps).db[i]? = some e) :
    negotiate (rRun size ps).db e.2.id = (e.2.id, (ps.map (·.2)).drop e.1) :=
  Mercure.rRun_replay size ps huniq hne i e he

/-- 'earliest' replays the whole retained history. -/
theorem earliest_replays_everything (db : List (Nat × Update)) :
    negotiate db earliest = (earliest, db.map (·.2)) := by
  unfold negotiate; simp

/-- A restart keeps the stored history (and, region level, reloads the sequence: flag `lastSeqOnOpen`). -/
theorem restart_keeps_history (M : Str → Str → Bool) (st : HubSt) (hk : st.kind = .bolt) :
    (st.restart M).db = st.db ∧ (st.restart M).seq = st.seq :=
  ⟨(Mercure.restart_keeps_history M st hk).1, (Mercure.restart_keeps_history M st hk).2.1⟩

/-- The obligation against /repo: the history scan stops *before* an entry stored after the
    registration and the sequence is reloaded on open (regenerated from bolt.go on every run). -/
theorem repo_flags : Facts.sysFlags.cutBeforeDispatch = true ∧ Facts.sysFlags.lastSeqOnOpen = true := by decide

open Mercure.Sys in
/-- Witness for the code as found (F2/F3): Last-Event-ID u1, u2 published between registration and
    the history scan — delivered from the history *and* from the live queue: [u2, u2]. -/
theorem C07_counterexample_duplicate :
    let pre := Sys.run (Sys.Sys.init Sys.Flags.found .bolt 0 [Sys.Sub.fresh [0] (.id 1) 1000] [.dispatch ⟨1, 0⟩]) (List.replicate 8 0)
    let σ := Sys.run { pre with threads := [⟨.add 0, (Sys.Op.add 0).start, none, none⟩, ⟨.dispatch ⟨2, 0⟩, (Sys.Op.dispatch ⟨2, 0⟩).start, none, none⟩] }
      ([0, 0, 0] ++ List.replicate 12 1 ++ List.replicate 16 0)
    σ.allDone = true ∧ ((Sys.getSub σ 0).enq.map (·.id)) = [2, 2] := by
  decide +kernel

open Mercure.Sys in
/-- The same schedule on the repaired code: [u2], once. -/
theorem C07_same_schedule_repaired :
    let pre := Sys.run (Sys.Sys.init Sys.Flags.repaired .bolt 0 [Sys.Sub.fresh [0] (.id 1) 1000] [.dispatch ⟨1, 0⟩]) (List.replicate 8 0)
    let σ := Sys.run { pre with threads := [⟨.add 0, (Sys.Op.add 0).start, none, none⟩, ⟨.dispatch ⟨2, 0⟩, (Sys.Op.dispatch ⟨2, 0⟩).start, none, none⟩] }
      ([0, 0, 0] ++ List.replicate 12 1 ++ List.replicate 16 0)
    σ.allDone = true ∧ ((Sys.getSub σ 0).enq.map (·.id)) = [2] := by
  decide +kernel

/-! ### region level: the replay/live junction under every schedule -/

/-- **Nothing lost, duplicated or reordered at the junction**: under every schedule the sequence a
    reconnecting subscriber has been sent is a gap-free prefix of its ideal sequence — also when
    its buffer overflows or it is disconnected or the hub closes (then the stream simply ends)… -/
theorem junction_gap_free_prefix (subs : List Sys.Sub) (ops : List Sys.Op) (wf : Sys.WellFormed subs ops) (sched : List Nat) :
    ∀ b ∈ (Sys.reach Sys.Flags.repaired .bolt 0 subs ops sched).subs, ∀ k, b.joinedAt = some k →
      b.enq <+: Sys.ideal b (Sys.reach Sys.Flags.repaired .bolt 0 subs ops sched).tr.accepted k :=
  Sys.Stream.bolt_stream_prefix_of_ideal subs ops wf sched

/-- …and exactly the ideal sequence once every operation has returned, if it is still connected. -/
theorem junction_complete (subs : List Sys.Sub) (ops : List Sys.Op) (wf : Sys.WellFormed subs ops) (sched : List Nat)
    (hq : (Sys.reach Sys.Flags.repaired .bolt 0 subs ops sched).allDone = true) :
    ∀ s, s ∈ (Sys.reach Sys.Flags.repaired .bolt 0 subs ops sched).tr.index →
      let b := Sys.getSub (Sys.reach Sys.Flags.repaired .bolt 0 subs ops sched) s
      b.ready = true → b.disconnected = false → ∀ k, b.joinedAt = some k →
      b.enq = Sys.ideal b (Sys.reach Sys.Flags.repaired .bolt 0 subs ops sched).tr.accepted k :=
  Sys.Stream.bolt_stream_complete subs ops wf sched hq

/-! ### at the level of the bytes in the bucket (Model/BoltStore) -/

/-- The history scan of `dispatchHistory`, run on the bucket's bytes (keys compared and cut the way
    the code does: `string(k[8:])`, `BigEndian.Uint64(k[:8]) > toSeq`; values decoded with the JSON
    decoder), announces the id and replays the updates that `negotiate` computes on the abstract
    history — for every bucket the hub can have written, every requested id (stored, repeated, a proper
    suffix or prefix of a stored id, "earliest", unknown). Every other C07/C08 theorem is about `negotiate`. -/
theorem byte_level_scan_is_negotiate (debug : Bool) (b : BoltStore.Bucket) (db : List (Nat × Update))
    (req : Str) (toSeq : Nat) (wf : BoltStore.WellFormed debug b db)
    (hr : ∀ e ∈ db, e.2.retry < 2 ^ 64) (hto : ∀ e ∈ db, e.1 ≤ toSeq) :
    BoltStore.respMatches (BoltStore.scan (BoltStore.reqBytes req) toSeq b).1 (negotiate db req).1 ∧
    BoltStore.decodeAll (BoltStore.scan (BoltStore.reqBytes req) toSeq b).2 = some (negotiate db req).2 :=
  BoltStore.scan_refines BoltStore.rt_holds debug b db req toSeq wf hr hto

/-- With the cut: whatever was stored after `toSeq` (after the registration) is not replayed. -/
theorem byte_level_scan_respects_the_cut (debug : Bool) (b : BoltStore.Bucket) (db : List (Nat × Update))
    (req : Str) (toSeq : Nat) (wf : BoltStore.WellFormed debug b db) (hr : ∀ e ∈ db, e.2.retry < 2 ^ 64) :
    ∃ us, BoltStore.decodeAll (BoltStore.scan (BoltStore.reqBytes req) toSeq b).2 = some us ∧
      us.Sublist (negotiate db req).2 ∧ us.length ≤ (db.filter (fun e => e.1 ≤ toSeq)).length :=
  BoltStore.scan_cut BoltStore.rt_holds debug b db req toSeq wf hr

/-- After a restart `getDBLastEventID` finds the id of the last stored update. -/
theorem byte_level_last_event_id (debug : Bool) (st : BoltStore.St) (db : List (Nat × Update))
    (wf : BoltStore.WellFormed debug st.bucket db) :
    BoltStore.lastEventIdBytes st = db.getLast?.map (fun e => utf8Bytes e.2.id) :=
  BoltStore.lastEventId_refines debug st db wf

/-- The key layout modelled is the one in /repo (regenerated from bolt.go: `persist` builds
    8-byte big-endian sequence ‖ id; `dispatchHistory` and `getDBLastEventID` read `k[8:]` / `k[:8]`). -/
theorem repo_key_shape : Facts.boltKeyShape = "be64(seq)||id" := by decide +kernel

end Mercure.C07

namespace Mercure.C07
/-- Obligation (regenerated fact): in /repo's `persist` the transport's last sequence and last event id are assigned
    only after `db.Update` has returned — a write transaction that fails (and is rolled back by bbolt) leaves them
    alone, as the model's single-step `db.Update` assumes. With the assignment inside the transaction (the tree as
    found: F14) a refused publication moved the cut-off one past the bucket sequence and the next publication was
    replayed *and* delivered live to a subscriber registering in between (witness: seeded/R-F14, stream [u2 u2]). -/
theorem repo_last_seq_moves_only_on_commit : Facts.lastSeqAfterCommit = true := by decide
end Mercure.C07

#print axioms Mercure.C07.replay_after_retained_id
#print axioms Mercure.C07.earliest_replays_everything
#print axioms Mercure.C07.restart_keeps_history
#print axioms Mercure.C07.repo_flags
#print axioms Mercure.C07.C07_counterexample_duplicate
#print axioms Mercure.C07.C07_same_schedule_repaired
#print axioms Mercure.C07.junction_gap_free_prefix
#print axioms Mercure.C07.junction_complete
#print axioms Mercure.C07.byte_level_scan_is_negotiate
#print axioms Mercure.C07.byte_level_scan_respects_the_cut
#print axioms Mercure.C07.byte_level_last_event_id
#print axioms Mercure.C07.repo_key_shape
#print axioms Mercure.C07.repo_last_seq_moves_only_on_commit
