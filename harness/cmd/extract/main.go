// extract — re-reads /repo's sources on every run and regenerates the source facts the Lean
// theorems depend on (DESIGN §5.2): Mercure/Generated/Facts.lean and facts.json.
// If a shape is not recognised the fact is emitted as "unrecognised" and the Lean obligation that
// consumes it fails: a broken obligation, never a silent pass.
package main

import (
	"encoding/json"
	"fmt"
	"go/ast"
	"go/parser"
	"go/token"
	"os"
	"path/filepath"
	"strconv"
	"strings"
)

type facts struct {
	MatchKeySegs    []seg             `json:"match_key_segs"`
	MatchKeyOK      bool              `json:"match_key_recognised"`
	MatchHitValid   bool              `json:"match_hit_validated"`
	MinHeaderLen    int               `json:"min_header_len"`
	MinQueryLen     int               `json:"min_query_len"`
	BearerPrefix    string            `json:"bearer_prefix"`
	CookieName      string            `json:"default_cookie_name"`
	OutBufferLength int               `json:"out_buffer_length"`
	EscapeRune      int               `json:"sublist_escape"`
	DelimRune       int               `json:"sublist_delim"`
	SubReplacer     []string          `json:"sublist_replacer"`
	EventReplacer   []string          `json:"event_replacer"`
	EventFormats    []string          `json:"event_formats"`
	IDEscapeFn      string            `json:"id_escape_fn"`
	Consts          map[string]string `json:"consts"`
	Errors          []string          `json:"errors"`
}

type seg struct {
	Kind string `json:"kind"` // lit | sel | topic | lenSel | lenTopic | unknown
	Lit  string `json:"lit,omitempty"`
}

var fset = token.NewFileSet()

func parse(repo, name string) *ast.File {
	f, err := parser.ParseFile(fset, filepath.Join(repo, name), nil, parser.ParseComments)
	if err != nil {
		fmt.Fprintln(os.Stderr, "extract: cannot parse", name, err)
		os.Exit(3)
	}

	return f
}

func funcDecl(f *ast.File, recv, name string) *ast.FuncDecl {
	for _, d := range f.Decls {
		fd, ok := d.(*ast.FuncDecl)
		if !ok || fd.Name.Name != name {
			continue
		}
		if recv == "" && fd.Recv == nil {
			return fd
		}
		if recv != "" && fd.Recv != nil && len(fd.Recv.List) == 1 {
			t := fd.Recv.List[0].Type
			if s, ok := t.(*ast.StarExpr); ok {
				t = s.X
			}
			if id, ok := t.(*ast.Ident); ok && id.Name == recv {
				return fd
			}
		}
	}

	return nil
}

func strLit(e ast.Expr) (string, bool) {
	bl, ok := e.(*ast.BasicLit)
	if !ok || (bl.Kind != token.STRING && bl.Kind != token.CHAR) {
		return "", false
	}
	s, err := strconv.Unquote(bl.Value)
	if err != nil {
		return "", false
	}

	return s, true
}

// flatten a chain of string concatenations
func flattenConcat(e ast.Expr) []ast.Expr {
	if p, ok := e.(*ast.ParenExpr); ok {
		return flattenConcat(p.X)
	}
	if b, ok := e.(*ast.BinaryExpr); ok && b.Op == token.ADD {
		return append(flattenConcat(b.X), flattenConcat(b.Y)...)
	}

	return []ast.Expr{e}
}

func isCall(e ast.Expr, pkg, fn string) (*ast.CallExpr, bool) {
	c, ok := e.(*ast.CallExpr)
	if !ok {
		return nil, false
	}
	if pkg == "" {
		id, ok := c.Fun.(*ast.Ident)

		return c, ok && id.Name == fn
	}
	s, ok := c.Fun.(*ast.SelectorExpr)
	if !ok || s.Sel.Name != fn {
		return nil, false
	}
	id, ok := s.X.(*ast.Ident)

	return c, ok && id.Name == pkg
}

func keySeg(e ast.Expr, selName, topicName string) seg {
	if s, ok := strLit(e); ok {
		return seg{Kind: "lit", Lit: s}
	}
	if id, ok := e.(*ast.Ident); ok {
		switch id.Name {
		case selName:
			return seg{Kind: "sel"}
		case topicName:
			return seg{Kind: "topic"}
		}
	}
	if c, ok := isCall(e, "strconv", "Itoa"); ok && len(c.Args) == 1 {
		if l, ok := isCall(c.Args[0], "", "len"); ok && len(l.Args) == 1 {
			if id, ok := l.Args[0].(*ast.Ident); ok {
				switch id.Name {
				case selName:
					return seg{Kind: "lenSel"}
				case topicName:
					return seg{Kind: "lenTopic"}
				}
			}
		}
	}

	return seg{Kind: "unknown"}
}

func (fa *facts) errf(format string, a ...any) { fa.Errors = append(fa.Errors, fmt.Sprintf(format, a...)) }

func (fa *facts) matchKey(repo string) {
	f := parse(repo, "topicselector.go")
	fd := funcDecl(f, "TopicSelectorStore", "match")
	if fd == nil || len(fd.Type.Params.List) == 0 {
		fa.errf("topicselector.go: method match not found")

		return
	}
	var names []string
	for _, p := range fd.Type.Params.List {
		for _, n := range p.Names {
			names = append(names, n.Name)
		}
	}
	if len(names) != 2 {
		fa.errf("topicselector.go: match: unexpected parameters %v", names)

		return
	}
	topicName, selName := names[0], names[1]
	// the key is the (single) value passed as first argument to cache.Get inside match
	var keyIdent string
	var keyExprDirect ast.Expr
	ast.Inspect(fd.Body, func(n ast.Node) bool {
		c, ok := n.(*ast.CallExpr)
		if !ok {
			return true
		}
		if s, ok := c.Fun.(*ast.SelectorExpr); ok && s.Sel.Name == "Get" && len(c.Args) == 1 {
			if id, ok := c.Args[0].(*ast.Ident); ok {
				keyIdent = id.Name
			} else {
				keyExprDirect = c.Args[0]
			}
		}

		return true
	})
	var keyExpr ast.Expr = keyExprDirect
	n := 0
	if keyIdent != "" {
		ast.Inspect(fd.Body, func(nd ast.Node) bool {
			a, ok := nd.(*ast.AssignStmt)
			if !ok || len(a.Lhs) != 1 || len(a.Rhs) != 1 {
				return true
			}
			if id, ok := a.Lhs[0].(*ast.Ident); ok && id.Name == keyIdent {
				keyExpr = a.Rhs[0]
				n++
			}

			return true
		})
	}
	if keyExpr == nil || n > 1 {
		fa.errf("topicselector.go: match: cache key expression not found (assignments: %d)", n)

		return
	}
	// is a cache hit validated against the selector?  (<entry>.<field> == topicSelector)
	ast.Inspect(fd.Body, func(nd ast.Node) bool {
		b, ok := nd.(*ast.BinaryExpr)
		if !ok || b.Op != token.EQL {
			return true
		}
		isSel := func(e ast.Expr) bool { id, ok := e.(*ast.Ident); return ok && id.Name == selName }
		isField := func(e ast.Expr) bool { _, ok := e.(*ast.SelectorExpr); return ok }
		if (isSel(b.X) && isField(b.Y)) || (isSel(b.Y) && isField(b.X)) {
			fa.MatchHitValid = true
		}

		return true
	})
	fa.MatchKeyOK = true
	for _, e := range flattenConcat(keyExpr) {
		s := keySeg(e, selName, topicName)
		if s.Kind == "unknown" {
			fa.MatchKeyOK = false
			fa.errf("topicselector.go: match: unrecognised key component at %s", fset.Position(e.Pos()))
		}
		fa.MatchKeySegs = append(fa.MatchKeySegs, s)
	}
}

// constants and simple literals
func (fa *facts) consts(repo string) {
	fa.Consts = map[string]string{}
	for _, name := range []string{"authorization.go", "localsubscriber.go", "subscriberlist.go", "hub.go", "transport.go", "bolt.go", "topicselectorlru.go", "subscription.go", "handler.go"} {
		f := parse(repo, name)
		for _, d := range f.Decls {
			gd, ok := d.(*ast.GenDecl)
			if !ok || gd.Tok != token.CONST {
				continue
			}
			for _, sp := range gd.Specs {
				vs := sp.(*ast.ValueSpec)
				for i, n := range vs.Names {
					if i < len(vs.Values) {
						fa.Consts[n.Name] = exprString(vs.Values[i])
					}
				}
			}
		}
	}
	unq := func(k string) string {
		s, err := strconv.Unquote(fa.Consts[k])
		if err != nil {
			fa.errf("const %s not a string literal: %q", k, fa.Consts[k])
		}

		return s
	}
	fa.BearerPrefix = unq("bearerPrefix")
	fa.CookieName = unq("defaultCookieName")
	if v, err := strconv.Atoi(fa.Consts["outBufferLength"]); err == nil {
		fa.OutBufferLength = v
	} else {
		fa.errf("outBufferLength not an int literal")
	}
	rn := func(k string) int {
		s, err := strconv.Unquote(fa.Consts[k])
		if err != nil || len([]rune(s)) != 1 {
			fa.errf("const %s not a rune literal: %q", k, fa.Consts[k])

			return -1
		}

		return int([]rune(s)[0])
	}
	fa.EscapeRune = rn("escape")
	fa.DelimRune = rn("delim")

	// authorize: len(authorizationHeaders[0]) < N ; len(authorizationQuery[0]) < N
	f := parse(repo, "authorization.go")
	if fd := funcDecl(f, "", "authorize"); fd != nil {
		ast.Inspect(fd.Body, func(n ast.Node) bool {
			b, ok := n.(*ast.BinaryExpr)
			if !ok || b.Op != token.LSS {
				return true
			}
			l, ok := isCall(b.X, "", "len")
			if !ok || len(l.Args) != 1 {
				return true
			}
			ix, ok := l.Args[0].(*ast.IndexExpr)
			if !ok {
				return true
			}
			id, ok := ix.X.(*ast.Ident)
			lit, ok2 := b.Y.(*ast.BasicLit)
			if !ok || !ok2 {
				return true
			}
			v, _ := strconv.Atoi(lit.Value)
			switch id.Name {
			case "authorizationHeaders":
				fa.MinHeaderLen = v
			case "authorizationQuery":
				fa.MinQueryLen = v
			}

			return true
		})
	}
	if fa.MinHeaderLen == 0 || fa.MinQueryLen == 0 {
		fa.errf("authorization.go: minimum credential lengths not found")
	}
}

func exprString(e ast.Expr) string {
	switch v := e.(type) {
	case *ast.BasicLit:
		return v.Value
	case *ast.Ident:
		return v.Name
	case *ast.CallExpr:
		var args []string
		for _, a := range v.Args {
			args = append(args, exprString(a))
		}

		return exprString(v.Fun) + "(" + strings.Join(args, ",") + ")"
	case *ast.SelectorExpr:
		return exprString(v.X) + "." + v.Sel.Name
	case *ast.BinaryExpr:
		return exprString(v.X) + v.Op.String() + exprString(v.Y)
	case *ast.ParenExpr:
		return "(" + exprString(v.X) + ")"
	case *ast.CompositeLit:
		var el []string
		for _, a := range v.Elts {
			el = append(el, exprString(a))
		}

		return exprString(v.Type) + "{" + strings.Join(el, ",") + "}"
	case *ast.ArrayType:
		return "[]" + exprString(v.Elt)
	}

	return fmt.Sprintf("<%T>", e)
}

// replacers: strings.NewReplacer(...) in subscriberlist.go (package var) and event.go (Event.String)
func (fa *facts) replacers(repo string) {
	collect := func(root ast.Node) (out []string, found bool) {
		ast.Inspect(root, func(n ast.Node) bool {
			c, ok := isCall2(n, "strings", "NewReplacer")
			if !ok {
				return true
			}
			found = true
			for _, a := range c.Args {
				out = append(out, exprString(a))
			}

			return false
		})

		return
	}
	sub, ok := collect(parse(repo, "subscriberlist.go"))
	if !ok {
		fa.errf("subscriberlist.go: strings.NewReplacer not found")
	}
	fa.SubReplacer = sub
	ev := parse(repo, "event.go")
	fd := funcDecl(ev, "Event", "String")
	if fd == nil {
		fa.errf("event.go: Event.String not found")

		return
	}
	evr, ok := collect(fd)
	if !ok {
		fa.errf("event.go: strings.NewReplacer not found")
	}
	for _, s := range evr {
		u, err := strconv.Unquote(s)
		if err != nil {
			fa.errf("event.go: replacer argument not a literal: %s", s)
		}
		fa.EventReplacer = append(fa.EventReplacer, u)
	}
	ast.Inspect(fd, func(n ast.Node) bool {
		c, ok := isCall2(n, "fmt", "Fprintf")
		if ok && len(c.Args) >= 2 {
			if s, ok := strLit(c.Args[1]); ok {
				fa.EventFormats = append(fa.EventFormats, s)
			}
		}

		return true
	})
}

func isCall2(n ast.Node, pkg, fn string) (*ast.CallExpr, bool) {
	e, ok := n.(ast.Expr)
	if !ok {
		return nil, false
	}

	return isCall(e, pkg, fn)
}

func (fa *facts) idEscape(repo string) {
	f := parse(repo, "subscriber.go")
	fd := funcDecl(f, "", "escapeTopics")
	if fd == nil {
		fa.errf("subscriber.go: escapeTopics not found")

		return
	}
	ast.Inspect(fd.Body, func(n ast.Node) bool {
		c, ok := n.(*ast.CallExpr)
		if !ok {
			return true
		}
		if s, ok := c.Fun.(*ast.SelectorExpr); ok {
			if id, ok := s.X.(*ast.Ident); ok && id.Name == "url" {
				fa.IDEscapeFn = "url." + s.Sel.Name
			}
		}
		if id, ok := c.Fun.(*ast.Ident); ok && id.Name != "make" && id.Name != "append" && id.Name != "len" {
			fa.IDEscapeFn = id.Name
		}

		return true
	})
}

func leanStr(s string) string {
	// a Lean `List Char` literal built from code points (robust for any scalar)
	var parts []string
	for _, r := range s {
		parts = append(parts, fmt.Sprintf("Char.ofNat %d", r))
	}

	return "[" + strings.Join(parts, ", ") + "]"
}

func leanStrList(l []string) string {
	var parts []string
	for _, s := range l {
		parts = append(parts, leanStr(s))
	}

	return "[" + strings.Join(parts, ", ") + "]"
}

func (fa *facts) lean() string {
	var b strings.Builder
	b.WriteString("import Mercure.Model.Selector\n/- GENERATED by /verif/harness/cmd/extract from /repo on every run — do not edit. -/\nnamespace Mercure.Facts\n")
	var segs []string
	for _, s := range fa.MatchKeySegs {
		switch s.Kind {
		case "lit":
			segs = append(segs, ".lit "+leanStr(s.Lit))
		case "unknown":
			segs = append(segs, ".lit []")
		default:
			segs = append(segs, "."+s.Kind)
		}
	}
	fmt.Fprintf(&b, "def matchKeyRecognised : Bool := %v\n", fa.MatchKeyOK)
	fmt.Fprintf(&b, "def matchHitValidated : Bool := %v\n", fa.MatchHitValid)
	fmt.Fprintf(&b, "def matchKeySegs : List Seg := [%s]\n", strings.Join(segs, ", "))
	fmt.Fprintf(&b, "def minHeaderLen : Nat := %d\n", fa.MinHeaderLen)
	fmt.Fprintf(&b, "def minQueryLen : Nat := %d\n", fa.MinQueryLen)
	fmt.Fprintf(&b, "def bearerPrefix : List Char := %s\n", leanStr(fa.BearerPrefix))
	fmt.Fprintf(&b, "def defaultCookieName : List Char := %s\n", leanStr(fa.CookieName))
	fmt.Fprintf(&b, "def outBufferLength : Nat := %d\n", fa.OutBufferLength)
	fmt.Fprintf(&b, "def sublistEscape : Nat := %d\n", max(fa.EscapeRune, 0))
	fmt.Fprintf(&b, "def sublistDelim : Nat := %d\n", max(fa.DelimRune, 0))
	fmt.Fprintf(&b, "def sublistReplacer : List String := %s\n", goStrList(fa.SubReplacer))
	fmt.Fprintf(&b, "def eventReplacer : List (List Char) := %s\n", leanStrList(fa.EventReplacer))
	fmt.Fprintf(&b, "def eventFormats : List (List Char) := %s\n", leanStrList(fa.EventFormats))
	fmt.Fprintf(&b, "def idEscapeFn : String := %q\n", fa.IDEscapeFn)
	fmt.Fprintf(&b, "def extractionErrors : Nat := %d\n", len(fa.Errors))
	b.WriteString("end Mercure.Facts\n")

	return b.String()
}

func goStrList(l []string) string {
	var parts []string
	for _, s := range l {
		parts = append(parts, strconv.Quote(s))
	}

	return "[" + strings.Join(parts, ", ") + "]"
}

func main() {
	repo := "/repo"
	if len(os.Args) < 3 {
		fmt.Fprintln(os.Stderr, "usage: extract <Facts.lean> <facts.json> [repo]")
		os.Exit(2)
	}
	if len(os.Args) > 3 {
		repo = os.Args[3]
	}
	fa := &facts{}
	fa.matchKey(repo)
	fa.consts(repo)
	fa.replacers(repo)
	fa.idEscape(repo)
	if fa.Errors == nil {
		fa.Errors = []string{}
	}
	lean := fa.lean()
	// only rewrite when changed, so that unchanged facts keep lake's cached oleans
	if old, err := os.ReadFile(os.Args[1]); err != nil || string(old) != lean {
		if err := os.WriteFile(os.Args[1], []byte(lean), 0o644); err != nil {
			panic(err)
		}
	}
	j, _ := json.MarshalIndent(fa, "", " ")
	if err := os.WriteFile(os.Args[2], j, 0o644); err != nil {
		panic(err)
	}
	for _, e := range fa.Errors {
		fmt.Fprintln(os.Stderr, "extract:", e)
	}
}
