#!/bin/bash
# Evaluate seeded changes on a private copy of /verif and /repo (mount namespace), so that several
# evaluations can run in parallel and the working trees are left alone.
# usage: tools/evalns.sh <slot> <seeded-name>…      results: /tmp/ev/<slot>/results/<name>.txt (+ replays)
set -e
slot=$1; shift
base=/tmp/ev/$slot
rm -rf $base; mkdir -p $base/results
rsync -a /verif/ $base/verif/ --exclude .git
rsync -a /repo/ $base/repo/
for m in "$@"; do
  unshare -m bash -c "mount --bind $base/verif /verif && mount --bind $base/repo /repo && cd /verif && git -C /repo checkout -q -- . && python3 tools/mutant.py seeded/$m > $base/results/$m.txt 2>&1; mkdir -p $base/results/$m.replays; cp -r /verif/replays/. $base/results/$m.replays/ 2>/dev/null; true"
  echo "$m: $(head -c 600 $base/results/$m.txt | tr '\n' ' ')"
done
