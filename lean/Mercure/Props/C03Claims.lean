import Mercure.Model.Claims
import Mercure.Lemmas.Claims
/-
  Property theorems about token-claims decoding (part of C03: only what a verifiable token *says* grants rights —
  here: what the bytes of its payload say, as the hub's decoding reads them).
  Statements written by the task owner; proofs in Lemmas/Claims.lean. Do not weaken.
-/
namespace Mercure.C03Claims
open Mercure Mercure.ClaimsJson

/-- **What an issuer writes is what the hub reads**: for all selector lists (any strings: quotes, backslashes,
    control characters, non-ASCII), nil or not, with or without the namespaced claim, with or without `exp`. -/
theorem claimsOf_encode (p s : Option (List Str)) (ns : Option (Option (List Str) × Option (List Str))) (e : Option Nat) :
    claimsOf (encode p s ns e) =
      some { mercure := { publish := p, subscribe := s, payload := [] },
             namespaced := ns.map fun (np, nsub) => { publish := np, subscribe := nsub, payload := [] },
             exp := e } :=
  Mercure.ClaimsJson.claimsOf_encode p s ns e

/-- … and the claim in effect is the namespaced one whenever it is present (validateJWT). -/
theorem effective_of_encode (p s : Option (List Str)) (ns : Option (Option (List Str) × Option (List Str))) (e : Option Nat) :
    ((claimsOf (encode p s ns e)).map Claims.effective).map (·.mercure) =
      some (match ns with
        | none => { publish := p, subscribe := s, payload := [] }
        | some (np, nsub) => { publish := np, subscribe := nsub, payload := [] }) :=
  Mercure.ClaimsJson.effective_of_encode p s ns e

/-- A selector list of the wrong kind makes the whole token invalid, whatever else the payload holds:
    a string, a number, a boolean, an object where `[]string` is expected. -/
theorem wrong_kind_is_invalid (back : List Str) (v : JVal)
    (h : match v with | .null => False | .arr _ => False | _ => True) : storeStrings back v = none :=
  Mercure.ClaimsJson.storeStrings_wrong_kind back v h

/-- … and so does an element that is not a string (or null). -/
theorem non_string_element_is_invalid (back : List Str) (pre : List Str) (x : JVal) (post : List JVal)
    (hx : match x with | .str _ => False | .null => False | _ => True) :
    storeStrings back (.arr (pre.map JVal.str ++ x :: post)) = none :=
  Mercure.ClaimsJson.storeStrings_bad_element back pre x post hx

/-- Keys the claims type does not know are skipped: they cannot change what is decoded. -/
theorem unknown_key_ignored (k : Str) (v : JVal) (rest : List (Str × JVal)) (c : C)
    (h : selectField cFields k = none) : storeMembersC ((k, v) :: rest) c = storeMembersC rest c :=
  Mercure.ClaimsJson.storeMembersC_unknown k v rest c h

/-- A fresh decoding of an array of strings is that list (nothing stale can appear without a `null` element). -/
theorem fresh_array_is_the_list (back : List Str) (l : List Str) (hl : l ≠ []) :
    (storeStrings back (.arr (l.map JVal.str))).map (·.1) = some (some l) :=
  Mercure.ClaimsJson.storeStrings_strs back l hl

/-- The generic parser reads back what the compact serialiser writes, for every JSON value whose numbers are
    well-formed numerals. -/
theorem parseJSON_render (v : JVal) (h : WellFormedNums v) : parseJSON (render v) = some v :=
  Mercure.ClaimsJson.parseJSON_render v h

/-! witnesses (kernel evaluation) of the decoding rules the model takes from encoding/json -/

/-- a repeated key merges: the second "mercure" object only overwrites what it mentions -/
theorem repeated_key_merges :
    (claimsOf "{\"mercure\":{\"publish\":[\"a\"]},\"mercure\":{\"subscribe\":[\"b\"]}}".toList).map (·.mercure) =
      some { publish := some [['a']], subscribe := some [['b']], payload := [] } := by decide +kernel

/-- the quirk the correspondence check exposed: decoding a slice a second time, a `null` element keeps the
    value the first decoding left at that index -/
theorem null_element_keeps_stale_value :
    (claimsOf "{\"mercure\":{\"publish\":[\"a\",\"*\"]},\"mercure\":{\"publish\":[\"b\",null]}}".toList).map (·.mercure.publish) =
      some (some [['b'], ['*']]) := by decide +kernel

/-- case folding of keys, including U+017F for 's' -/
theorem folded_keys :
    (claimsOf "{\"MERCURE\":{\"publiſh\":[\"*\"]}}".toList).map (·.mercure.publish) = some (some [['*']]) := by decide +kernel

/-- the namespaced claim given as null is absent; the plain claim given as null is left as it was -/
theorem null_claims :
    (claimsOf "{\"mercure\":{\"publish\":[\"*\"]},\"mercure\":null,\"https://mercure.rocks/\":{\"publish\":[]},\"https://mercure.rocks/\":null}".toList)
      = some { mercure := { publish := some [['*']], subscribe := none, payload := [] }, namespaced := none, exp := none } := by
  decide +kernel

/-- a quoted number is a date; a non-number is a type error -/
theorem dates :
    (claimsOf "{\"exp\":\"1893456000\"}".toList).map (·.exp) = some (some 1893456000) ∧
    (claimsOf "{\"exp\":1.8934560009e9}".toList).map (·.exp) = some (some 1893456000) ∧
    claimsOf "{\"exp\":\"soon\"}".toList = none ∧ claimsOf "{\"exp\":true}".toList = none := by decide +kernel

end Mercure.C03Claims

#print axioms Mercure.C03Claims.claimsOf_encode
#print axioms Mercure.C03Claims.effective_of_encode
#print axioms Mercure.C03Claims.wrong_kind_is_invalid
#print axioms Mercure.C03Claims.non_string_element_is_invalid
#print axioms Mercure.C03Claims.unknown_key_ignored
#print axioms Mercure.C03Claims.fresh_array_is_the_list
#print axioms Mercure.C03Claims.parseJSON_render
#print axioms Mercure.C03Claims.repeated_key_merges
#print axioms Mercure.C03Claims.null_element_keeps_stale_value
#print axioms Mercure.C03Claims.folded_keys
#print axioms Mercure.C03Claims.null_claims
#print axioms Mercure.C03Claims.dates
