import Mercure.Model.Basic
/-
  Mercure.Model.Wire — the line protocol of the correspondence check:
  tab-separated fields; every string hex-encoded UTF-8; a list is "-" (empty) or items joined by ",".
-/
namespace Mercure.Wire

def hexVal (c : Char) : Option Nat :=
  if '0' ≤ c && c ≤ '9' then some (c.toNat - 48)
  else if 'a' ≤ c && c ≤ 'f' then some (c.toNat - 87)
  else if 'A' ≤ c && c ≤ 'F' then some (c.toNat - 55)
  else none

def unhexBytes : List Char → ByteArray → Option ByteArray
  | [], acc => some acc
  | [_], _ => none
  | a :: b :: rest, acc =>
    match hexVal a, hexVal b with
    | some x, some y => unhexBytes rest (acc.push (UInt8.ofNat (x * 16 + y)))
    | _, _ => none

def unhex (s : String) : Option Str := do
  let bs ← unhexBytes s.toList ByteArray.empty
  let str ← String.fromUTF8? bs
  pure str.toList

def hexDigit (n : Nat) : Char := if n < 10 then Char.ofNat (48 + n) else Char.ofNat (87 + n)

def hex (s : Str) : String :=
  String.ofList ((String.ofList s).toUTF8.toList.flatMap (fun b => [hexDigit (b.toNat / 16), hexDigit (b.toNat % 16)]))

def unhexList (s : String) : Option (List Str) :=
  if s == "-" then some [] else (s.splitOn ",").mapM unhex

def hexList (l : List Str) : String :=
  if l.isEmpty then "-" else ",".intercalate (l.map hex)

def bool (s : String) : Bool := s == "1"
def showBool (b : Bool) : String := if b then "1" else "0"

end Mercure.Wire
