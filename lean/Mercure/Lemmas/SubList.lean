import Mercure.Model.SubList
import Mercure.Model.Subscriber
/-
  Lemmas for C05 (subscriber index).
-/
namespace Mercure

/-! ### decode ∘ encode -/

theorem foldl_decodeStep_escape (t : Str) :
    ∀ (pe : Bool) (b : Str) (pr : Bool) (tops : List Str) (rest : Str),
    List.foldl decodeStep ⟨pe, false, b, pr, tops⟩ (escapeTopic t ++ rest) =
      List.foldl decodeStep ⟨pe, false, t.reverse ++ b, pr, tops⟩ rest := by
  induction t with
  | nil => intros; simp [escapeTopic]
  | cons c cs ih =>
    intro pe b pr tops rest
    unfold escapeTopic
    split
    · next h =>
      subst h
      simp only [List.cons_append, List.foldl_cons]
      have : decodeStep (decodeStep ⟨pe, false, b, pr, tops⟩ escChar) escChar
          = ⟨pe, false, escChar :: b, pr, tops⟩ := by
        simp [decodeStep]
      rw [this, ih]; simp
    · split
      · next h0 h =>
        subst h
        simp only [List.cons_append, List.foldl_cons]
        have : decodeStep (decodeStep ⟨pe, false, b, pr, tops⟩ escChar) delimChar
            = ⟨pe, false, delimChar :: b, pr, tops⟩ := by
          simp [decodeStep]
        rw [this, ih]; simp
      · next h0 h1 =>
        simp only [List.cons_append, List.foldl_cons]
        have : decodeStep ⟨pe, false, b, pr, tops⟩ c = ⟨pe, false, c :: b, pr, tops⟩ := by
          simp [decodeStep, h0, h1]
        rw [this, ih]; simp

theorem foldl_decodeStep_join (l : List Str) :
    ∀ (x b : Str) (pr : Bool) (tops : List Str),
    let st := List.foldl decodeStep ⟨true, false, b, pr, tops⟩
                (joinWith [delimChar] ((x :: l).map escapeTopic))
    (st.builder.reverse :: st.topics).reverse = tops.reverse ++ (b.reverse ++ x) :: l ∧ st.priv = pr := by
  induction l with
  | nil =>
    intro x b pr tops
    have := foldl_decodeStep_escape x true b pr tops []
    simp only [List.append_nil] at this
    simp [joinWith, this]
  | cons y l ih =>
    intro x b pr tops
    have hj : joinWith [delimChar] ((x :: y :: l).map escapeTopic)
        = escapeTopic x ++ (delimChar :: joinWith [delimChar] ((y :: l).map escapeTopic)) := by
      simp [joinWith]
    rw [hj, foldl_decodeStep_escape]
    simp only [List.foldl_cons]
    have : decodeStep ⟨true, false, x.reverse ++ b, pr, tops⟩ delimChar
        = ⟨true, false, [], pr, (x.reverse ++ b).reverse :: tops⟩ := by
      have : ¬ (delimChar = escChar) := by decide
      simp [decodeStep, this]
    rw [this]
    have := ih y [] pr ((x.reverse ++ b).reverse :: tops)
    simpa using this

theorem sortStrs_ne_nil {ts : List Str} (h : ts ≠ []) : sortStrs ts ≠ [] := by
  cases ts with
  | nil => exact absurd rfl h
  | cons a l =>
    intro hs
    have : a ∈ sortStrs (a :: l) := mem_sortStrs.2 (by simp)
    rw [hs] at this
    cases this

theorem decode_encode (ts : List Str) (p : Bool) (h : ts ≠ []) :
    decode (encode ts p) = (sortStrs ts, p) := by
  have hne := sortStrs_ne_nil h
  unfold decode encode
  cases hs : sortStrs ts with
  | nil => exact absurd hs hne
  | cons y l =>
    have hj : joinWith [delimChar] ([if p then '1' else '0'] :: (y :: l).map escapeTopic)
        = (if p then '1' else '0') :: delimChar :: joinWith [delimChar] ((y :: l).map escapeTopic) := by
      simp [joinWith]
    rw [hj]
    simp only [List.foldl_cons]
    have h1 : decodeStep (decodeStep {} (if p then '1' else '0')) delimChar
        = ⟨true, false, [], p, []⟩ := by
      cases p <;> rfl
    rw [h1]
    have := foldl_decodeStep_join l y [] p []
    simp only at this
    obtain ⟨h2, h3⟩ := this
    rw [h2, h3]; simp

/-! ### MatchTopics -/

theorem foldl_matchTopicsStep (M : Str → Str → Bool) (subs allowed ts : List Str) :
    ∀ (s c : Bool),
    List.foldl (matchTopicsStep M subs allowed) ⟨s, c⟩ ts =
      ⟨s || ts.any (fun t => subs.any (M t)), c || ts.any (fun t => allowed.any (M t))⟩ := by
  induction ts with
  | nil => intro s c; simp
  | cons t ts ih =>
    intro s c
    simp only [List.foldl_cons, matchTopicsStep, ih, List.any_cons]
    cases s <;> cases c <;> simp

theorem matchTopics_eq (M : Str → Str → Bool) (subs allowed ts : List Str) (p : Bool) :
    matchTopics M subs allowed ts p =
      (ts.any (fun t => subs.any (M t)) && (!p || ts.any (fun t => allowed.any (M t)))) := by
  unfold matchTopics
  simp [foldl_matchTopicsStep]

theorem any_congr_mem {α : Type} {l l' : List α} (f : α → Bool) (h : ∀ x, x ∈ l ↔ x ∈ l') :
    l.any f = l'.any f := by
  rw [Bool.eq_iff_iff, List.any_eq_true, List.any_eq_true]
  constructor
  · rintro ⟨x, hx, hf⟩; exact ⟨x, (h x).1 hx, hf⟩
  · rintro ⟨x, hx, hf⟩; exact ⟨x, (h x).2 hx, hf⟩

theorem matchTopics_congr (M : Str → Str → Bool) {subs subs' allowed allowed' ts ts' : List Str}
    (p : Bool) (h1 : ∀ x, x ∈ subs ↔ x ∈ subs') (h2 : ∀ x, x ∈ allowed ↔ x ∈ allowed')
    (h3 : ∀ x, x ∈ ts ↔ x ∈ ts') :
    matchTopics M subs allowed ts p = matchTopics M subs' allowed' ts' p := by
  rw [matchTopics_eq, matchTopics_eq]
  have e1 : (fun t => subs.any (M t)) = (fun t => subs'.any (M t)) := by
    funext t; exact any_congr_mem _ h1
  have e2 : (fun t => allowed.any (M t)) = (fun t => allowed'.any (M t)) := by
    funext t; exact any_congr_mem _ h2
  rw [e1, e2, any_congr_mem _ h3, any_congr_mem (fun t => allowed'.any (M t)) h3]

/-! ### skipfilter -/

/-- Invariant of the index (DESIGN §8.0): ids strictly increasing and below `next`; every cached
    filter `(i, set)` has `i ≤ next`, only ids `< i`, and for indexed ids `< i` membership ⇔ test. -/
def SkipFilter.Inv {V : Type} (test : V → Str → Bool) (sf : SkipFilter V) : Prop :=
  (sf.list.map (·.1)).Pairwise (· < ·) ∧
  (∀ e ∈ sf.list, e.1 < sf.next) ∧
  (∀ c ∈ sf.cache, c.2.i ≤ sf.next ∧ (∀ id ∈ c.2.set, id < c.2.i) ∧
     (∀ e ∈ sf.list, e.1 < c.2.i → (e.1 ∈ c.2.set ↔ test e.2 c.1 = true)))

/-- The per-filter part of `SkipFilter.Inv`. -/
def FInv {V : Type} (test : V → Str → Bool) (list : List (Nat × V)) (next : Nat) (k : Str)
    (f : Filter) : Prop :=
  f.i ≤ next ∧ (∀ id ∈ f.set, id < f.i) ∧
    (∀ e ∈ list, e.1 < f.i → (e.1 ∈ f.set ↔ test e.2 k = true))

theorem mem_insertSorted {x y : Nat} {l : List Nat} :
    y ∈ SkipFilter.insertSorted x l ↔ y = x ∨ y ∈ l := by
  induction l with
  | nil => simp [SkipFilter.insertSorted]
  | cons z zs ih =>
    unfold SkipFilter.insertSorted
    split
    · simp
    · split
      · next h => subst h; simp
      · simp only [List.mem_cons, ih]
        constructor
        · rintro (h | h | h) <;> simp [h]
        · rintro (h | h | h) <;> simp [h]

theorem mem_foldl_insertSorted {V : Type} (l : List (Nat × V)) (id : Nat) :
    ∀ s : List Nat, id ∈ l.foldl (fun s (e : Nat × V) => SkipFilter.insertSorted e.1 s) s ↔
      id ∈ s ∨ ∃ e ∈ l, e.1 = id := by
  induction l with
  | nil => intro s; simp
  | cons a l ih =>
    intro s
    simp only [List.foldl_cons, ih, mem_insertSorted, List.mem_cons]
    constructor
    · rintro ((h | h) | ⟨e, he, h⟩)
      · exact Or.inr ⟨a, Or.inl rfl, h.symm⟩
      · exact Or.inl h
      · exact Or.inr ⟨e, Or.inr he, h⟩
    · rintro (h | ⟨e, (he | he), h⟩)
      · exact Or.inl (Or.inr h)
      · subst he; exact Or.inl (Or.inl h.symm)
      · exact Or.inr ⟨e, he, h⟩

theorem lookupFilter_fst (cache : List (Str × Filter)) (k : Str) :
    (SkipFilter.lookupFilter cache k).1 = ⟨0, []⟩ ∨
      (k, (SkipFilter.lookupFilter cache k).1) ∈ cache := by
  unfold SkipFilter.lookupFilter
  split
  · next e he =>
    right
    have h1 := List.find?_some he
    have h2 := List.mem_of_find?_eq_some he
    have h3 : e.1 = k := by simpa using h1
    rw [← h3]; exact h2
  · left; rfl

theorem lookupFilter_snd (cache : List (Str × Filter)) (k : Str) :
    ∀ c ∈ (SkipFilter.lookupFilter cache k).2, c ∈ cache := by
  unfold SkipFilter.lookupFilter
  split
  · intro c hc; exact (List.mem_filter.1 hc).1
  · intro c hc; exact hc

theorem eq_of_fst_eq {V : Type} {l : List (Nat × V)} (hp : (l.map (·.1)).Pairwise (· < ·))
    {e e' : Nat × V} (he : e ∈ l) (he' : e' ∈ l) (h : e.1 = e'.1) : e = e' := by
  induction l with
  | nil => cases he
  | cons a l ih =>
    simp only [List.map_cons, List.pairwise_cons, List.mem_map, forall_exists_index, and_imp,
      forall_apply_eq_imp_iff₂] at hp
    rcases List.mem_cons.1 he with rfl | he1 <;> rcases List.mem_cons.1 he' with rfl | he1'
    · rfl
    · have := hp.1 _ he1'; omega
    · have := hp.1 _ he1; omega
    · exact ih hp.2 he1 he1'

theorem extendFilter_spec {V : Type} (test : V → Str → Bool) (sf : SkipFilter V) (k : Str)
    (f : Filter) (hp : (sf.list.map (·.1)).Pairwise (· < ·)) (hlt : ∀ e ∈ sf.list, e.1 < sf.next)
    (hf : FInv test sf.list sf.next k f) :
    (SkipFilter.extendFilter test sf k f).i = sf.next ∧
    (∀ id ∈ (SkipFilter.extendFilter test sf k f).set, id < sf.next) ∧
    (∀ e ∈ sf.list, (e.1 ∈ (SkipFilter.extendFilter test sf k f).set ↔ test e.2 k = true)) := by
  obtain ⟨h1, h2, h3⟩ := hf
  unfold SkipFilter.extendFilter
  split
  · next hlt' =>
    refine ⟨rfl, ?_, ?_⟩
    · intro id hid
      simp only [mem_foldl_insertSorted, List.mem_filter] at hid
      rcases hid with hid | ⟨e, ⟨he, _⟩, rfl⟩
      · have := h2 id hid; omega
      · exact hlt e he
    · intro e he
      simp only [mem_foldl_insertSorted, List.mem_filter, Bool.and_eq_true, decide_eq_true_eq]
      constructor
      · rintro (hm | ⟨e', ⟨he', _, ht⟩, heq⟩)
        · have := h2 _ hm
          exact (h3 e he this).1 hm
        · have := eq_of_fst_eq hp he' he heq
          subst this; exact ht
      · intro ht
        by_cases hc : e.1 < f.i
        · exact Or.inl ((h3 e he hc).2 ht)
        · exact Or.inr ⟨e, ⟨he, by omega, ht⟩, rfl⟩
  · next hge =>
    have hi : f.i = sf.next := by omega
    refine ⟨hi, ?_, ?_⟩
    · intro id hid; have := h2 id hid; omega
    · intro e he
      exact h3 e he (by have := hlt e he; omega)

theorem lookupFilter_FInv {V : Type} (test : V → Str → Bool) (sf : SkipFilter V) (k : Str)
    (h : sf.Inv test) : FInv test sf.list sf.next k (SkipFilter.lookupFilter sf.cache k).1 := by
  rcases lookupFilter_fst sf.cache k with h0 | h0
  · rw [h0]
    refine ⟨Nat.zero_le _, ?_, ?_⟩
    · intro id hid; cases hid
    · intro e _ hlt; cases hlt
  · exact h.2.2 _ h0

theorem matchAny_exact_of_inv {V : Type} (test : V → Str → Bool) (sf : SkipFilter V) (k : Str)
    (h : sf.Inv test) :
    (sf.matchAny test k).1 = sf.list.filter (fun e => test e.2 k) := by
  have hs := extendFilter_spec test sf k _ h.1 h.2.1 (lookupFilter_FInv test sf k h)
  unfold SkipFilter.matchAny SkipFilter.getFilter
  simp only
  apply List.filter_congr
  intro e he
  rw [Bool.eq_iff_iff, List.contains_iff_mem]
  exact hs.2.2 e he


theorem inv_new {V : Type} (test : V → Str → Bool) (cap : Nat) :
    (SkipFilter.new cap : SkipFilter V).Inv test := by
  refine ⟨?_, ?_, ?_⟩
  · simp [SkipFilter.new]
  · intro e he; simp [SkipFilter.new] at he
  · intro c hc; simp [SkipFilter.new] at hc

theorem inv_add {V : Type} (test : V → Str → Bool) (sf : SkipFilter V) (v : V)
    (h : sf.Inv test) : (sf.add v).Inv test := by
  obtain ⟨h1, h2, h3⟩ := h
  refine ⟨?_, ?_, ?_⟩
  · simp only [SkipFilter.add, List.map_append, List.map_cons, List.map_nil]
    rw [List.pairwise_append]
    refine ⟨h1, List.pairwise_singleton _ _, ?_⟩
    intro a ha b hb
    simp only [List.mem_map] at ha
    obtain ⟨e, he, rfl⟩ := ha
    simp only [List.mem_singleton] at hb
    subst hb
    exact h2 e he
  · intro e he
    simp only [SkipFilter.add, List.mem_append, List.mem_singleton] at he ⊢
    rcases he with he | rfl
    · have := h2 e he; omega
    · simp
  · intro c hc
    obtain ⟨a, b, d⟩ := h3 c hc
    refine ⟨?_, b, ?_⟩
    · simp only [SkipFilter.add]; omega
    · intro e he hlt
      simp only [SkipFilter.add, List.mem_append, List.mem_singleton] at he
      rcases he with he | rfl
      · exact d e he hlt
      · simp only at hlt; omega

theorem inv_removeId {V : Type} (test : V → Str → Bool) (sf : SkipFilter V) (id : Nat)
    (h : sf.Inv test) : (sf.removeId id).Inv test := by
  obtain ⟨h1, h2, h3⟩ := h
  refine ⟨?_, ?_, ?_⟩
  · exact h1.sublist (List.Sublist.map _ List.filter_sublist)
  · intro e he
    exact h2 e (List.mem_filter.1 he).1
  · intro c hc
    obtain ⟨a, b, d⟩ := h3 c hc
    exact ⟨a, b, fun e he => d e (List.mem_filter.1 he).1⟩

theorem inv_evict {V : Type} (test : V → Str → Bool) (sf : SkipFilter V) (k : Str)
    (h : sf.Inv test) : (sf.evict k).Inv test := by
  obtain ⟨h1, h2, h3⟩ := h
  exact ⟨h1, h2, fun c hc => h3 c (List.mem_filter.1 hc).1⟩

theorem inv_matchAny {V : Type} (test : V → Str → Bool) (sf : SkipFilter V) (k : Str)
    (h : sf.Inv test) : (sf.matchAny test k).2.Inv test := by
  have hs := extendFilter_spec test sf k _ h.1 h.2.1 (lookupFilter_FInv test sf k h)
  obtain ⟨h1, h2, h3⟩ := h
  refine ⟨h1, h2, ?_⟩
  intro c hc
  simp only [SkipFilter.matchAny, SkipFilter.getFilter, List.mem_map] at hc
  obtain ⟨e, he, rfl⟩ := hc
  have he' : e ∈ (k, SkipFilter.extendFilter test sf k (SkipFilter.lookupFilter sf.cache k).1) ::
      (SkipFilter.lookupFilter sf.cache k).2 := by
    split at he
    · exact List.dropLast_subset _ he
    · exact he
  split
  · -- the purged filter for `k`
    obtain ⟨hi, hlt, hm⟩ := hs
    refine ⟨?_, ?_, ?_⟩
    · show (SkipFilter.extendFilter test sf k (SkipFilter.lookupFilter sf.cache k).1).i ≤ sf.next
      omega
    · intro id hid
      have := hlt id (List.mem_filter.1 hid).1
      show id < (SkipFilter.extendFilter test sf k (SkipFilter.lookupFilter sf.cache k).1).i
      omega
    · intro x hx _
      show x.1 ∈ List.filter _ _ ↔ _
      rw [List.mem_filter, ← hm x hx]
      constructor
      · exact fun hh => hh.1
      · intro hh
        refine ⟨hh, ?_⟩
        rw [List.contains_iff_mem]
        exact List.mem_map.2 ⟨x, hx, rfl⟩
  · next hne =>
    rcases List.mem_cons.1 he' with rfl | he2
    · simp at hne
    · exact h3 e (lookupFilter_snd sf.cache k e he2)

theorem foldl_sfApply_inv {V : Type} (test : V → Str → Bool) (ops : List (SfOp V)) :
    ∀ sf : SkipFilter V, sf.Inv test → (ops.foldl (sfApply test) sf).Inv test := by
  induction ops with
  | nil => intro sf h; exact h
  | cons op ops ih =>
    intro sf h
    simp only [List.foldl_cons]
    apply ih
    cases op with
    | add v => exact inv_add test sf v h
    | remove id => exact inv_removeId test sf id h
    | dispatch k => exact inv_matchAny test sf k h
    | evict k => exact inv_evict test sf k h

theorem sfRun_inv {V : Type} (test : V → Str → Bool) (cap : Nat) (ops : List (SfOp V)) :
    (sfRun test cap ops).Inv test :=
  foldl_sfApply_inv test ops _ (inv_new test cap)

end Mercure
