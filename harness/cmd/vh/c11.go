package main

import (
	"fmt"
	"hash/fnv"
	"strings"
	"sync"

	"verifharness/pkg/gen"
	"verifharness/pkg/h"

	"github.com/dunglas/mercure"
)

func init() { register("sel", "C11", runSel) }

type selLookup struct {
	Topic string `json:"topic"`
	Sel   string `json:"sel"`
}

type selCase struct {
	Cap     int         `json:"cap"`
	Shards  int         `json:"shards"`
	Lookups []selLookup `json:"lookups"`
}

// selPool builds a per-case pool of selectors and topics: templates with their expansions and
// near-misses, literals, malformed templates, plus — the adversarial stream — the pairs obtained by
// moving the text around each separator of the cache-key expression from the selector to the topic.
func selPool(r *h.Rand, o *gen.Oracle, adversarial bool) (sels, topics []string) {
	nt := 2 + r.Intn(3)
	for i := 0; i < nt; i++ {
		var s string
		switch r.Intn(6) {
		case 0:
			s = gen.Malformed(r)
		case 1:
			s = gen.Literal(r, false)
		default:
			s = gen.Template(r)
		}
		sels = append(sels, s)
		if o.Valid(s) {
			for k := 0; k < 2; k++ {
				e := gen.Expand(r, oTpl(o, s))
				topics = append(topics, e)
				if r.Bool() {
					topics = append(topics, gen.Perturb(r, e))
				}
				if r.Chance(1, 3) { // same prefix, a remainder no variable can produce
					topics = append(topics, e+h.Pick(r, []string{"?q=1", "#f", ":x", " y", "é", "/deeper", "%zz"}))
				}
			}
		} else {
			topics = append(topics, s)
		}
	}
	sels = append(sels, "*")
	topics = append(topics, gen.Literal(r, false), "*")
	if adversarial {
		// key = … sel SEP topic …: (A SEP B, T) and (A, B SEP T) share a key for every split.
		const sep = "_"
		base := len(sels)
		for i := 0; i < base; i++ {
			s := sels[i]
			for _, t := range topics[:min(len(topics), 6)] {
				for p := 0; p < len(s); p++ {
					if strings.HasPrefix(s[p:], sep) {
						sels = append(sels, s[:p])
						topics = append(topics, s[p+len(sep):]+sep+t)
					}
				}
				for p := 0; p < len(t); p++ {
					if strings.HasPrefix(t[p:], sep) {
						sels = append(sels, s+sep+t[:p])
						topics = append(topics, t[p+len(sep):])
					}
				}
			}
		}
	}

	return dedupe(sels), dedupe(topics)
}

func oTpl(o *gen.Oracle, s string) *uritemplateT { return tplOf(s) }

func dedupe(xs []string) []string {
	seen := map[string]bool{}
	var out []string
	for _, x := range xs {
		if !seen[x] {
			seen[x] = true
			out = append(out, x)
		}
	}

	return out
}

func runSelCase(c *h.Ctx, r *h.Report, o *gen.Oracle, cs selCase, tag string) {
	store, err := mercure.NewTopicSelectorStoreLRU(int64(cs.Cap), int64(cs.Shards))
	if err != nil {
		panic(err)
	}
	var sels, topics []string
	for _, l := range cs.Lookups {
		sels = append(sels, l.Sel)
		topics = append(topics, l.Topic)
	}
	lines := []string{"or.reset"}
	lines = append(lines, o.Lines(dedupe(sels), dedupe(topics))...)
	lines = append(lines, h.Line("sel.new", h.Itoa(cs.Cap), h.Itoa(cs.Shards)))
	pre := len(lines)
	for _, l := range cs.Lookups {
		lines = append(lines, h.Line("sel.match", h.Hex(l.Topic), h.Hex(l.Sel)))
	}
	ans := c.Driver.Ask(lines)[pre:]

	seen := map[selLookup]bool{}
	repeat, sawT, sawF := false, false, false
	for i, l := range cs.Lookups {
		impl := store.VerifMatch(l.Topic, l.Sel)
		spec := o.Spec(l.Topic, l.Sel)
		r.Evaluations++
		want := h.B(impl) + " " + h.B(spec)
		f := strings.Fields(ans[i])
		if len(f) != 2 {
			r.Disagree(h.Disagreement{Class: "C11.sel.match/driver", Case: cs, Model: ans[i], Impl: want, At: i})

			continue
		}
		if f[1] != h.B(spec) {
			r.Disagree(h.Disagreement{Class: "C11.matchSpec-vs-harness-spec", Case: cs, Model: ans[i], Impl: want, At: i})
		}
		if f[0] != h.B(impl) {
			r.Disagree(h.Disagreement{Class: "C11.Store.match", Case: cs, Model: ans[i], Impl: want, At: i})
		}
		if impl != spec {
			// the implementation alone breaks the property: answer differs from the protocol's relation
			key := "C11:answer-differs-from-protocol-relation"
			if seenBefore(cs.Lookups[:i], l) {
				key = "C11:repeat-answer-changed"
			} else if strings.Contains(l.Sel+l.Topic, "_") {
				key = "C11:cache-key-collision"
			}
			r.Violate(h.Violation{Key: key,
				What:   fmt.Sprintf("match(topic=%q, selector=%q) answered %v after %d earlier lookups; the protocol relation (and an uncached store) says %v", l.Topic, l.Sel, impl, i, spec),
				Replay: map[string]any{"family": "sel", "case": shrinkSel(cs, i)}})
		}
		if seen[l] && strings.Contains(l.Sel, "{") {
			repeat = true
		}
		seen[l] = true
		if l.Sel != "*" && l.Sel != l.Topic {
			if spec {
				sawT = true
			} else {
				sawF = true
			}
		}
		if !strings.Contains(l.Sel, "{") {
			r.Count("sel:literal")
		} else if o.Valid(l.Sel) {
			r.Count("sel:template")
		} else {
			r.Count("sel:malformed")
		}
		if spec {
			r.Count("answer:true")
		} else {
			r.Count("answer:false")
		}
	}
	r.Count(fmt.Sprintf("%s:cap=%d", tag, cs.Cap))
	if repeat && sawT && sawF {
		r.Nontrivial(fmt.Sprint(cs))
	}
	r.Sample(cs)
}

func seenBefore(ls []selLookup, l selLookup) bool {
	for _, x := range ls {
		if x == l {
			return true
		}
	}

	return false
}

// shrinkSel: greedy removal of lookups before position `at` that are not needed for the wrong answer.
func shrinkSel(cs selCase, at int) selCase {
	o := gen.NewOracle()
	fails := func(ls []selLookup) bool {
		store, _ := mercure.NewTopicSelectorStoreLRU(int64(cs.Cap), int64(cs.Shards))
		for i, l := range ls {
			got := store.VerifMatch(l.Topic, l.Sel)
			if i == len(ls)-1 {
				return got != o.Spec(l.Topic, l.Sel)
			}
		}

		return false
	}
	cur := append([]selLookup(nil), cs.Lookups[:at+1]...)
	for i := 0; i < len(cur)-1; {
		cand := append(append([]selLookup(nil), cur[:i]...), cur[i+1:]...)
		if fails(cand) {
			cur = cand
		} else {
			i++
		}
	}

	return selCase{Cap: cs.Cap, Shards: cs.Shards, Lookups: cur}
}

// hashCollisionCases: pairs of cache keys that collide under FNV-32a (the hash the sharded cache uses to
// pick a shard) although they are different strings and have different answers — found by a birthday
// search over numbered topics / selectors. A cache whose entries are identified by anything coarser than
// the whole key string (a hash, a truncated key) answers the second lookup of such a pair from the first.
func hashCollisionCases(rr *h.Rand) []selCase {
	h32 := func(s string) uint32 {
		f := fnv.New32a()
		f.Write([]byte(s))

		return f.Sum32()
	}
	var out []selCase
	base := "https://example.com/" + gen.Literal(rr, false)
	// match-result keys m_<sel>_<topic>: a matching topic and a non-matching one with the same hash
	sel := base + "/users/{id}/notes"
	seen := map[uint32]string{}
	const n = 1 << 17
	for i := 0; i < n; i++ {
		t := fmt.Sprintf("%s/users/%d/notes", base, i)
		seen[h32("m_"+sel+"_"+t)] = t
	}
	for i := 0; i < n && len(out) < 3; i++ {
		t := fmt.Sprintf("%s/admin/%d/secrets", base, i)
		if t1, ok := seen[h32("m_"+sel+"_"+t)]; ok {
			out = append(out, selCase{Cap: 10000, Shards: h.Pick(rr, []int{1, 4, 256}), Lookups: []selLookup{{t1, sel}, {t, sel}, {t1, sel}}},
				selCase{Cap: 10000, Shards: h.Pick(rr, []int{1, 4, 256}), Lookups: []selLookup{{t, sel}, {t1, sel}}})
		}
	}
	// compiled-template keys t_<sel>: two selectors with the same hash
	seenSel := map[uint32]int{}
	mk := func(i int) string { return fmt.Sprintf("%s/rooms/%d/{message}", base, i) }
	found := 0
	for i := 0; i < n && found < 2; i++ {
		k := h32("t_" + mk(i))
		if j, ok := seenSel[k]; ok {
			a, b := mk(j), mk(i)
			ta := fmt.Sprintf("%s/rooms/%d/hello", base, j)
			out = append(out, selCase{Cap: 10000, Shards: h.Pick(rr, []int{1, 4, 256}), Lookups: []selLookup{{ta, a}, {ta, b}, {ta, a}}},
				selCase{Cap: 10000, Shards: h.Pick(rr, []int{1, 4, 256}), Lookups: []selLookup{{ta, b}, {ta, a}}})
			found++
		}
		seenSel[k] = i
	}

	return out
}

// concurrentSel: several goroutines evaluate different template selectors on one store at the same time, on
// fresh topics (nothing answered from the match cache): every answer must be the protocol's, whatever the
// interleaving — the "under concurrent evaluation" clause, on the implementation alone (no model involved).
func concurrentSel(c *h.Ctx, r *h.Report, o *gen.Oracle) {
	for _, capacity := range []int{0, 1000} {
		store, err := mercure.NewTopicSelectorStoreLRU(int64(capacity), 4)
		if err != nil {
			panic(err)
		}
		sels := []string{"https://example.com/a/{id}", "https://example.com/b/{id}", "https://example.com/c/{x}/{y}"}
		n := c.Scale(20000, 200000)
		type bad struct {
			topic, sel string
			got        bool
		}
		found := make(chan bad, 16)
		var wg sync.WaitGroup
		for g := 0; g < 6; g++ {
			wg.Add(1)
			go func(g int) {
				defer wg.Done()
				sel := sels[g%len(sels)]
				for i := 0; i < n; i++ {
					// half of the topics are expansions of this goroutine's selector, half of another's
					other := sels[(g+1+i%2)%len(sels)]
					for _, t := range []struct {
						topic string
						want  bool
					}{
						{strings.NewReplacer("{id}", fmt.Sprint("g", g, "i", i), "{x}", fmt.Sprint("g", g), "{y}", fmt.Sprint(i)).Replace(sel), true},
						{strings.NewReplacer("{id}", fmt.Sprint("g", g, "i", i), "{x}", fmt.Sprint("g", g), "{y}", fmt.Sprint(i)).Replace(other), other == sel},
					} {
						if got := store.VerifMatch(t.topic, sel); got != t.want {
							select {
							case found <- bad{t.topic, sel, got}:
							default:
							}

							return
						}
					}
				}
			}(g)
		}
		wg.Wait()
		close(found)
		r.Evaluations += 6 * n * 2
		r.CountN(fmt.Sprintf("concurrent:cap=%d lookups", capacity), 6*n*2)
		for b := range found {
			if o.Spec(b.topic, b.sel) == b.got {
				continue // the harness's expectation was wrong, not the store
			}
			r.Violate(h.Violation{Key: "C11:answer-differs-under-concurrent-evaluation",
				What:   fmt.Sprintf("with 6 goroutines evaluating 3 template selectors on one store (capacity %d), match(topic=%q, selector=%q) answered %v; the protocol relation says %v", capacity, b.topic, b.sel, b.got, !b.got),
				Replay: map[string]any{"family": "sel", "note": "concurrent stage: not replayable as a single history; re-run the family", "topic": b.topic, "selector": b.sel, "capacity": capacity}})
		}
	}
}

func runSel(c *h.Ctx, r *h.Report) {
	r.Rule = "lookup histories over a per-case pool (templates from a grammar over all RFC 6570 operators/modifiers with their expansions and near-misses, literals, malformed templates, '*'), against stores of capacity {0,1,2,10000} x shards {1,4,256}; adversarial stream adds, for every occurrence of the cache-key separator, the pair that moves text across it; a concurrent stage has 6 goroutines evaluate 3 template selectors on one store (capacity 0 and 1000) on fresh topics, every answer checked against the protocol relation; a long-input stream looks up topics and selectors of several hundred bytes that share a long prefix and differ only at the end, with different answers; a hash-collision stream looks up pairs of distinct keys (same selector with a matching and a non-matching topic; two selectors) that a birthday search found to collide under FNV-32a, the cache's shard hash. Non-trivial = history that repeats a (topic, template-selector) pair and contains both a true and a false non-reflexive answer; distinct by content."
	o := gen.NewOracle()
	caps := []int{0, 1, 2, 10000}
	shards := []int{1, 4, 256}
	nPlain := c.Scale(600, 20000)
	nAdv := c.Scale(300, 5000)
	if c.Replay != "" {
		var rp struct {
			Case selCase `json:"case"`
		}
		readReplay(c.Replay, &rp)
		runSelCase(c, r, o, rp.Case, "replay")

		return
	}
	for _, cs := range selCorpus() {
		runSelCase(c, r, o, cs, "corpus")
	}
	concurrentSel(c, r, o)
	for k := 0; k < c.Scale(2, 20); k++ {
		for _, cs := range hashCollisionCases(c.Rand.Fork()) {
			runSelCase(c, r, o, cs, "hash-collision")
		}
	}
	// long inputs: topics (and selectors) of several hundred bytes that share a long prefix and differ only at the
	// end, with different answers — a cache that identifies entries by a bounded part of the key confuses them
	for k := 0; k < c.Scale(4, 40); k++ {
		rr := c.Rand.Fork()
		base := "https://example.com/" + gen.Literal(rr, false) + "/books/"
		sel := base + "{id}"
		long := strings.Repeat(h.Pick(rr, []string{"a", "ab", "x1"}), 200+rr.Intn(300))
		t1, t2 := base+long, base+long+h.Pick(rr, []string{"/reviews", "?x", "#f", " "})
		longSel := base + strings.Repeat("seg/", 150+rr.Intn(100)) + "{id}"
		ls1, ls2 := strings.TrimSuffix(longSel, "{id}")+"1", strings.TrimSuffix(longSel, "{id}")+"1/2"
		for _, lk := range [][]selLookup{{{t1, sel}, {t2, sel}, {t1, sel}}, {{t2, sel}, {t1, sel}, {t2, sel}}, {{ls1, longSel}, {ls2, longSel}}, {{ls2, longSel}, {ls1, longSel}}} {
			runSelCase(c, r, o, selCase{Cap: h.Pick(rr, []int{2, 10000}), Shards: h.Pick(rr, []int{1, 256}), Lookups: lk}, "long-inputs")
		}
	}
	// selectors and topics longer than 64 KiB around the cache-key separator: (S1, T1) and (S2, T2) with
	// S1+"_"+T1 == S2+"_"+T2, lengths 65536 apart, different answers — in both orders
	for _, padLen := range []int{65535, 65536, 131071} {
		pad := strings.Repeat("x", padLen)
		s1, t1 := "{a}", pad+"_b"
		s2, t2 := "{a}_"+pad, "b"
		for _, lk := range [][]selLookup{{{t1, s1}, {t2, s2}, {t1, s1}}, {{t2, s2}, {t1, s1}}} {
			runSelCase(c, r, o, selCase{Cap: 10000, Shards: 4, Lookups: lk}, "very-long-inputs")
		}
	}
	for i := 0; i < nPlain+nAdv; i++ {
		rr := c.Rand.Fork()
		adv := i >= nPlain
		sels, topics := selPool(rr, o, adv)
		cs := selCase{Cap: h.Pick(rr, caps), Shards: h.Pick(rr, shards)}
		n := 10 + rr.Intn(31)
		if adv {
			n = 40 + rr.Intn(40)
		}
		for k := 0; k < n; k++ {
			cs.Lookups = append(cs.Lookups, selLookup{Topic: h.Pick(rr, topics), Sel: h.Pick(rr, sels)})
		}
		tag := "plain"
		if adv {
			tag = "adversarial"
		}
		runSelCase(c, r, o, cs, tag)
	}
}

// selCorpus: minimised past failures, run first.
func selCorpus() []selCase {
	return []selCase{
		{Cap: 10000, Shards: 256, Lookups: []selLookup{{Topic: "a_c", Sel: "a_{x}"}, {Topic: "{x}_a_c", Sel: "a"}}},
	}
}
