// Package h is the shared infrastructure of the correspondence harness: PRNG, wire encoding,
// the Lean driver process, and the per-run report (DESIGN §5.1).
package h

import (
	"bufio"
	"crypto/sha256"
	"encoding/hex"
	"encoding/json"
	"fmt"
	"io"
	"os"
	"os/exec"
	"sort"
	"strconv"
	"strings"
	"sync"
)

// ---------- PRNG: splitmix64, everything random derives from VERIF_SEED ----------

type Rand struct{ s uint64 }

func NewRand(seed uint64) *Rand { return &Rand{s: seed} }

func (r *Rand) U64() uint64 {
	r.s += 0x9e3779b97f4a7c15
	z := r.s
	z = (z ^ (z >> 30)) * 0xbf58476d1ce4e5b9
	z = (z ^ (z >> 27)) * 0x94d049bb133111eb

	return z ^ (z >> 31)
}

func (r *Rand) Intn(n int) int {
	if n <= 0 {
		return 0
	}

	return int(r.U64() % uint64(n))
}

func (r *Rand) Bool() bool           { return r.U64()&1 == 1 }
func (r *Rand) Chance(p, q int) bool { return r.Intn(q) < p }
func (r *Rand) Fork() *Rand          { return NewRand(r.U64()) }

func Pick[T any](r *Rand, xs []T) T { return xs[r.Intn(len(xs))] }

func Shuffle[T any](r *Rand, xs []T) {
	for i := len(xs) - 1; i > 0; i-- {
		j := r.Intn(i + 1)
		xs[i], xs[j] = xs[j], xs[i]
	}
}

// ---------- wire ----------

func Hex(s string) string { return hex.EncodeToString([]byte(s)) }

func HexList(l []string) string {
	if len(l) == 0 {
		return "-"
	}
	p := make([]string, len(l))
	for i, s := range l {
		p[i] = Hex(s)
	}

	return strings.Join(p, ",")
}

func UnHex(s string) string {
	b, err := hex.DecodeString(s)
	if err != nil {
		return "<bad-hex:" + s + ">"
	}

	return string(b)
}

func UnHexList(s string) []string {
	if s == "-" {
		return nil
	}
	var out []string
	for _, p := range strings.Split(s, ",") {
		out = append(out, UnHex(p))
	}

	return out
}

func B(b bool) string {
	if b {
		return "1"
	}

	return "0"
}

func Line(fields ...string) string { return strings.Join(fields, "\t") }

func Itoa(i int) string { return strconv.Itoa(i) }

// ---------- Lean driver process ----------

type Driver struct {
	cmd *exec.Cmd
	in  io.WriteCloser
	out *bufio.Reader
	N   int
}

func StartDriver() *Driver {
	path := os.Getenv("VERIF_DRIVER")
	if path == "" {
		path = "/verif/lean/.lake/build/bin/driver"
	}
	cmd := exec.Command(path)
	in, err := cmd.StdinPipe()
	if err != nil {
		panic(err)
	}
	out, err := cmd.StdoutPipe()
	if err != nil {
		panic(err)
	}
	cmd.Stderr = os.Stderr
	if err := cmd.Start(); err != nil {
		panic(fmt.Sprintf("cannot start Lean driver %s: %v", path, err))
	}

	return &Driver{cmd: cmd, in: in, out: bufio.NewReaderSize(out, 1<<20)}
}

// Ask sends the lines and returns one answer per line.
func (d *Driver) Ask(lines []string) []string {
	done := make(chan struct{})
	go func() {
		w := bufio.NewWriterSize(d.in, 1<<20)
		for _, l := range lines {
			if strings.ContainsAny(l, "\n\r") {
				panic("newline in driver line")
			}
			w.WriteString(l)
			w.WriteByte('\n')
		}
		w.Flush()
		close(done)
	}()
	res := make([]string, 0, len(lines))
	for range lines {
		s, err := d.out.ReadString('\n')
		if err != nil {
			panic(fmt.Sprintf("Lean driver died: %v (after %d answers)", err, len(res)))
		}
		s = strings.TrimRight(s, "\n")
		if strings.HasPrefix(lines[len(res)], "or.valid") || strings.HasPrefix(lines[len(res)], "or.exp") {
			oracleMu.Lock()
			OracleChecked++
			oracleMu.Unlock()
		}
		if strings.HasPrefix(lines[len(res)], "tok\t") {
			oracleMu.Lock()
			TokChecked++
			oracleMu.Unlock()
		}
		if strings.HasPrefix(s, "tok-mismatch") {
			oracleMu.Lock()
			if len(OracleMismatches) < 50 {
				OracleMismatches = append(OracleMismatches, Disagreement{Class: "token-facts: harness decoder vs Model/Token+Claims",
					Case: lines[len(res)], Model: s, Impl: "facts recomputed by the harness's decoder (pkg/jws: encoding/json on a mirror struct)"})
			}
			oracleMu.Unlock()
		}
		if strings.HasPrefix(s, "or-mismatch") {
			oracleMu.Lock()
			if len(OracleMismatches) < 50 {
				OracleMismatches = append(OracleMismatches, Disagreement{Class: "template-library-vs-Model/Template",
					Case: lines[len(res)], Model: s, Impl: "yosida95/uritemplate (called directly by the harness)"})
			}
			oracleMu.Unlock()
		}
		res = append(res, s)
	}
	<-done
	d.N += len(lines)

	return res
}

func (d *Driver) Ask1(line string) string { return d.Ask([]string{line})[0] }

func (d *Driver) Close() {
	d.in.Close()
	d.cmd.Wait()
}

// OracleMismatches: answers of the template library the harness announced to the driver (or.valid / or.exp)
// that the driver's own template model (Model/Template) does not reproduce. Every report written by this
// process carries them as disagreements of their own class.
var (
	OracleMismatches []Disagreement
	OracleChecked    int
	TokChecked       int
	oracleMu         sync.Mutex
)

// ---------- report ----------

type Disagreement struct {
	Class string   `json:"class"` // correspondence class that no longer checks
	Case  any      `json:"case"`
	Ops   []string `json:"ops,omitempty"`
	Model string   `json:"model"`
	Impl  string   `json:"impl"`
	At    int      `json:"at"`
}

// Violation: the implementation alone violates the property's oracle on this input.
type Violation struct {
	Key    string `json:"key"`  // stable identifier of *which* input/call site/history fails
	What   string `json:"what"` // human description
	Replay any    `json:"replay"`
}

type Report struct {
	Property           string         `json:"property"`
	Family             string         `json:"family"`
	Seed               uint64         `json:"seed"`
	Tier               string         `json:"tier"`
	Evaluations        int            `json:"evaluations"`
	DistinctNontrivial int            `json:"distinct_nontrivial"`
	Rule               string         `json:"rule"`
	Samples            []any          `json:"samples"`
	Distribution       map[string]int `json:"distribution"`
	Exhaustive         bool           `json:"exhaustive"`
	DriverLines        int            `json:"driver_lines"`
	Disagreements      []Disagreement `json:"disagreements"`
	Violations         []Violation    `json:"violations"`
	Notes              []string       `json:"notes,omitempty"`

	seen map[string]bool
}

func NewReport(prop, family string, seed uint64, tier string) *Report {
	return &Report{Property: prop, Family: family, Seed: seed, Tier: tier,
		Distribution: map[string]int{}, seen: map[string]bool{}}
}

func (r *Report) Count(k string) { r.Distribution[k]++ }

func (r *Report) CountN(k string, n int) { r.Distribution[k] += n }

// Nontrivial registers a non-trivial case under its canonical form; distinct ones are counted.
func (r *Report) Nontrivial(canon string) {
	h := sha256.Sum256([]byte(canon))
	k := string(h[:8])
	if !r.seen[k] {
		r.seen[k] = true
		r.DistinctNontrivial++
	}
}

func (r *Report) Sample(x any) {
	if len(r.Samples) < 5 {
		r.Samples = append(r.Samples, x)
	}
}

func (r *Report) Disagree(d Disagreement) {
	if len(r.Disagreements) < 20 {
		r.Disagreements = append(r.Disagreements, d)
	}
	r.Count("DISAGREEMENT:" + d.Class)
}

func (r *Report) Violate(v Violation) {
	for _, o := range r.Violations {
		if o.Key == v.Key {
			r.Count("VIOLATION-repeat:" + v.Key)

			return
		}
	}
	r.Violations = append(r.Violations, v)
}

func (r *Report) Write(path string) {
	keys := make([]string, 0, len(r.Distribution))
	for k := range r.Distribution {
		keys = append(keys, k)
	}
	sort.Strings(keys)
	oracleMu.Lock()
	r.Disagreements = append(r.Disagreements, OracleMismatches...)
	if r.Distribution != nil {
		r.Distribution["template answers checked against Model/Template"] = OracleChecked
		r.Distribution["token facts checked against Model/Token+Claims"] = TokChecked
	}
	oracleMu.Unlock()
	if r.Disagreements == nil {
		r.Disagreements = []Disagreement{}
	}
	if r.Violations == nil {
		r.Violations = []Violation{}
	}
	if r.Samples == nil {
		r.Samples = []any{}
	}
	b, err := json.MarshalIndent(r, "", " ")
	if err != nil {
		panic(err)
	}
	if err := os.WriteFile(path, b, 0o644); err != nil {
		panic(err)
	}
}

// Ctx is what every family receives.
type Ctx struct {
	Seed   uint64
	Tier   string // quick | thorough
	Rand   *Rand
	Driver *Driver
	Replay string // path of a replay file to run instead of generating
}

func (c *Ctx) Thorough() bool { return c.Tier == "thorough" }

// Scale picks the case count for the tier.
func (c *Ctx) Scale(quick, thorough int) int {
	if c.Thorough() {
		return thorough
	}

	return quick
}
