import Mercure.Model.Wire
import Mercure.Model.Selector
import Mercure.Model.SubList
import Mercure.Model.Subscriber
import Mercure.Generated.Facts
import Std.Data.HashMap
/-
  Driver — one operation per input line, one canonical answer per line (DESIGN §5.1).
-/
open Mercure Mercure.Wire

structure Oracle where
  valid   : Std.HashMap Str Bool := {}
  expands : Std.HashMap (Str × Str) Bool := {}

def Oracle.toT (o : Oracle) : TemplateOracle :=
  { valid := fun s => (o.valid.get? s).getD false,
    expands := fun s t => (o.expands.get? (s, t)).getD false }

structure SubSpec where
  sels : List Str
  allowed : List Str
  deriving Repr

structure DSt where
  oracle : Oracle := {}
  store  : Store := Store.new 0 0
  sf     : SkipFilter Nat := SkipFilter.new 0
  sfSubs : Std.HashMap Nat SubSpec := {}
  sfIds  : Std.HashMap Nat Nat := {}     -- harness label ↦ skipfilter id

def sfTest (st : DSt) (label : Nat) (key : Str) : Bool :=
  match st.sfSubs.get? label with
  | none => false
  | some sp =>
    let (ts, p) := decode key
    matchTopics (matchSpec st.oracle.toT) sp.sels sp.allowed ts p

def step (st : DSt) (line : String) : DSt × String :=
  match line.splitOn "\t" with
  | ["or.valid", s, v] =>
    match unhex s with
    | some s => ({ st with oracle := { st.oracle with valid := st.oracle.valid.insert s (bool v) } }, "ok")
    | none => (st, "bad-op")
  | ["or.exp", s, t, v] =>
    match unhex s, unhex t with
    | some s, some t =>
      ({ st with oracle := { st.oracle with expands := st.oracle.expands.insert (s, t) (bool v) } }, "ok")
    | _, _ => (st, "bad-op")
  | ["or.reset"] => ({ st with oracle := {} }, "ok")
  -- C11
  | ["sel.new", cap, shards] =>
    match cap.toNat?, shards.toNat? with
    | some c, some n => ({ st with store := Store.new c n }, "ok")
    | _, _ => (st, "bad-op")
  | ["sel.match", t, s] =>
    match unhex t, unhex s with
    | some t, some s =>
      let (r, store') := Store.match st.oracle.toT Facts.matchKeySegs Facts.matchHitValidated st.store t s
      ({ st with store := store' }, s!"{showBool r} {showBool (matchSpec st.oracle.toT t s)}")
    | _, _ => (st, "bad-op")
  -- C05
  | ["enc", ts, p] =>
    match unhexList ts with
    | some ts => (st, hex (encode ts (bool p)))
    | none => (st, "bad-op")
  | ["dec", f] =>
    match unhex f with
    | some f => let (ts, p) := decode f; (st, s!"{hexList ts} {showBool p}")
    | none => (st, "bad-op")
  | ["sf.new", cap] =>
    match cap.toNat? with
    | some c => ({ st with sf := SkipFilter.new c, sfSubs := {}, sfIds := {} }, "ok")
    | none => (st, "bad-op")
  | ["sf.add", label, sels, allowed] =>
    match label.toNat?, unhexList sels, unhexList allowed with
    | some l, some sels, some allowed =>
      ({ st with sfIds := st.sfIds.insert l st.sf.next, sf := st.sf.add l,
                 sfSubs := st.sfSubs.insert l { sels, allowed } }, "ok")
    | _, _, _ => (st, "bad-op")
  | ["sf.remove", label] =>
    match label.toNat? with
    | some l =>
      match st.sfIds.get? l with
      | some id => ({ st with sf := st.sf.removeId id, sfIds := st.sfIds.erase l }, "ok")
      | none => (st, "ok")
    | none => (st, "bad-op")
  | ["sf.match", ts, p] =>
    match unhexList ts with
    | some ts =>
      let (found, sf') := st.sf.matchAny (sfTest st) (encode ts (bool p))
      ({ st with sf := sf' }, " ".intercalate (found.map (fun e => toString e.2)))
    | none => (st, "bad-op")
  | ["sf.walk"] => (st, " ".intercalate (st.sf.walkAll.map (fun e => toString e.2)))
  | _ => (st, "bad-op")

partial def loop (h : IO.FS.Stream) (out : IO.FS.Stream) (st : DSt) : IO Unit := do
  let line ← h.getLine
  if line.isEmpty then return ()
  let l := if line.endsWith "\n" then (line.dropEnd 1).toString else line
  let (st', o) := step st l
  out.putStrLn o
  out.flush
  loop h out st'

def main : IO Unit := do
  loop (← IO.getStdin) (← IO.getStdout) {}
