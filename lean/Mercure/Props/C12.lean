import Mercure.Lemmas.Event
import Mercure.Generated.Facts
/-
  C12 — Every update is written as exactly one SSE event decoding to what was published.
-/
namespace Mercure.C12
open Mercure

/-- For any data payload (empty, multi-line, CR / CRLF line ends, text that looks like SSE fields)
    and any id / type free of line breaks, the bytes written form exactly one event that the
    reference parser (W3C REC-eventsource-20150203) decodes to the published id, type, retry and
    data with line ends normalised to LF. -/
theorem parse_encode (e : Event) (hid : noLineBreak e.id) (hty : noLineBreak e.type) :
    parseSSE e.encode = [e.expected] :=
  Mercure.parse_encode e hid hty

/-- The stream contains nothing but such events and ':' comments, and decodes to exactly the
    events written, in order. -/
theorem parse_stream (cs : List Chunk)
    (h : ∀ e ∈ Chunk.events cs, noLineBreak e.id ∧ noLineBreak e.type) :
    parseSSE (cs.flatMap Chunk.bytes) = (Chunk.events cs).map Event.expected :=
  Mercure.parse_stream cs h

/-- The serialiser modelled is the one in /repo: the replacer pairs (in priority order) and the
    three format strings of `Event.String` are regenerated from event.go on every run. -/
theorem repo_event_format :
    Facts.eventReplacer = ["\r\n".toList, "\ndata: ".toList, "\r".toList, "\ndata: ".toList, "\n".toList, "\ndata: ".toList]
    ∧ Facts.eventFormats = ["event: %s\n".toList, "retry: %d\n".toList, "id: %s\ndata: %s\n\n".toList] := by
  decide +kernel

/-! non-vacuity: a payload with every kind of line end and field look-alikes -/
example : parseSSE ({ data := "a\r\nid: x\r\rdata: y\n".toList, id := "urn:1".toList, type := "t:u".toList, retry := 30 } : Event).encode
    = [{ id := "urn:1".toList, type := "t:u".toList, data := "a\nid: x\n\ndata: y\n".toList, retry := some 30 }] := by
  decide +kernel

end Mercure.C12

#print axioms Mercure.C12.parse_encode
#print axioms Mercure.C12.parse_stream
#print axioms Mercure.C12.repo_event_format
