module verifcaddy

go 1.23.0

toolchain go1.24.0

require (
	github.com/caddyserver/caddy/v2 v2.9.1
	github.com/dunglas/mercure v0.18.4
	github.com/dunglas/mercure/caddy v0.0.0
	verifharness v0.0.0
)

require (
	cel.dev/expr v0.20.0 // indirect
	dario.cat/mergo v1.0.1 // indirect
	filippo.io/edwards25519 v1.1.0 // indirect
	github.com/AndreasBriese/bbloom v0.0.0-20190825152654-46b345b51c96 // indirect
	github.com/Masterminds/goutils v1.1.1 // indirect
	github.com/Masterminds/semver/v3 v3.3.1 // indirect
	github.com/Masterminds/sprig/v3 v3.3.0 // indirect
	github.com/MauriceGit/skiplist v0.0.0-20211105230623-77f5c8d3e145 // indirect
	github.com/MicahParks/jwkset v0.8.0 // indirect
	github.com/MicahParks/keyfunc/v3 v3.3.10 // indirect
	github.com/RoaringBitmap/roaring v1.9.4 // indirect
	github.com/antlr4-go/antlr/v4 v4.13.1 // indirect
	github.com/aryann/difflib v0.0.0-20210328193216-ff5ff6dc229b // indirect
	github.com/beorn7/perks v1.0.1 // indirect
	github.com/bits-and-blooms/bitset v1.20.0 // indirect
	github.com/caddyserver/certmagic v0.21.7 // indirect
	github.com/caddyserver/zerossl v0.1.3 // indirect
	github.com/cespare/xxhash v1.1.0 // indirect
	github.com/cespare/xxhash/v2 v2.3.0 // indirect
	github.com/chzyer/readline v1.5.1 // indirect
	github.com/coreos/go-oidc/v3 v3.12.0 // indirect
	github.com/cpuguy83/go-md2man/v2 v2.0.6 // indirect
	github.com/dgraph-io/badger v1.6.2 // indirect
	github.com/dgraph-io/badger/v2 v2.2007.4 // indirect
	github.com/dgraph-io/ristretto v0.2.0 // indirect
	github.com/dgryski/go-farm v0.0.0-20240924180020-3414d57e47da // indirect
	github.com/dustin/go-humanize v1.0.1 // indirect
	github.com/felixge/httpsnoop v1.0.4 // indirect
	github.com/francoispqt/gojay v1.2.13 // indirect
	github.com/fsnotify/fsnotify v1.8.0 // indirect
	github.com/go-jose/go-jose/v3 v3.0.3 // indirect
	github.com/go-jose/go-jose/v4 v4.0.4 // indirect
	github.com/go-sql-driver/mysql v1.8.1 // indirect
	github.com/gofrs/uuid v4.4.0+incompatible // indirect
	github.com/golang-jwt/jwt/v5 v5.2.1 // indirect
	github.com/golang/protobuf v1.5.4 // indirect
	github.com/golang/snappy v0.0.4 // indirect
	github.com/google/cel-go v0.23.2 // indirect
	github.com/google/uuid v1.6.0 // indirect
	github.com/gorilla/handlers v1.5.2 // indirect
	github.com/gorilla/mux v1.8.1 // indirect
	github.com/hashicorp/golang-lru v1.0.2 // indirect
	github.com/hashicorp/hcl v1.0.0 // indirect
	github.com/huandu/xstrings v1.5.0 // indirect
	github.com/jackc/pgpassfile v1.0.0 // indirect
	github.com/jackc/pgservicefile v0.0.0-20240606120523-5a60cdf6a761 // indirect
	github.com/jackc/pgx/v5 v5.7.2 // indirect
	github.com/jackc/puddle/v2 v2.2.2 // indirect
	github.com/kevburnsjr/skipfilter v0.0.1 // indirect
	github.com/klauspost/compress v1.17.11 // indirect
	github.com/klauspost/cpuid/v2 v2.2.9 // indirect
	github.com/libdns/libdns v0.2.3 // indirect
	github.com/magiconair/properties v1.8.9 // indirect
	github.com/manifoldco/promptui v0.9.0 // indirect
	github.com/mattn/go-colorable v0.1.14 // indirect
	github.com/mattn/go-isatty v0.0.20 // indirect
	github.com/mgutz/ansi v0.0.0-20200706080929-d51e80ef957d // indirect
	github.com/mholt/acmez/v3 v3.0.1 // indirect
	github.com/miekg/dns v1.1.63 // indirect
	github.com/mitchellh/copystructure v1.2.0 // indirect
	github.com/mitchellh/go-ps v1.0.0 // indirect
	github.com/mitchellh/mapstructure v1.5.0 // indirect
	github.com/mitchellh/reflectwalk v1.0.2 // indirect
	github.com/munnerz/goautoneg v0.0.0-20191010083416-a7dc8b61c822 // indirect
	github.com/pelletier/go-toml/v2 v2.2.3 // indirect
	github.com/pkg/errors v0.9.1 // indirect
	github.com/prometheus/client_golang v1.20.5 // indirect
	github.com/prometheus/client_model v0.6.1 // indirect
	github.com/prometheus/common v0.62.0 // indirect
	github.com/prometheus/procfs v0.15.1 // indirect
	github.com/quic-go/qpack v0.5.1 // indirect
	github.com/quic-go/quic-go v0.49.0 // indirect
	github.com/rs/xid v1.6.0 // indirect
	github.com/russross/blackfriday/v2 v2.1.0 // indirect
	github.com/sagikazarmark/slog-shim v0.1.0 // indirect
	github.com/shopspring/decimal v1.4.0 // indirect
	github.com/shurcooL/sanitized_anchor_name v1.0.0 // indirect
	github.com/slackhq/nebula v1.9.4 // indirect
	github.com/smallstep/certificates v0.28.1 // indirect
	github.com/smallstep/cli-utils v0.10.0 // indirect
	github.com/smallstep/nosql v0.7.0 // indirect
	github.com/smallstep/pkcs7 v0.2.1 // indirect
	github.com/smallstep/scep v0.0.0-20241223071629-a37a330173bc // indirect
	github.com/smallstep/truststore v0.13.0 // indirect
	github.com/spf13/afero v1.12.0 // indirect
	github.com/spf13/cast v1.7.1 // indirect
	github.com/spf13/cobra v1.9.1 // indirect
	github.com/spf13/pflag v1.0.6 // indirect
	github.com/spf13/viper v1.19.0 // indirect
	github.com/stoewer/go-strcase v1.3.0 // indirect
	github.com/subosito/gotenv v1.6.0 // indirect
	github.com/tailscale/tscert v0.0.0-20240608151842-d3f834017e53 // indirect
	github.com/unrolled/secure v1.17.0 // indirect
	github.com/urfave/cli v1.22.16 // indirect
	github.com/yosida95/uritemplate/v3 v3.0.2 // indirect
	github.com/zeebo/blake3 v0.2.4 // indirect
	go.etcd.io/bbolt v1.4.0 // indirect
	go.step.sm/crypto v0.57.1 // indirect
	go.step.sm/linkedca v0.22.2 // indirect
	go.uber.org/automaxprocs v1.6.0 // indirect
	go.uber.org/multierr v1.11.0 // indirect
	go.uber.org/zap v1.27.0 // indirect
	go.uber.org/zap/exp v0.3.0 // indirect
	golang.org/x/crypto v0.33.0 // indirect
	golang.org/x/crypto/x509roots/fallback v0.0.0-20250214233241-911360c8a4f4 // indirect
	golang.org/x/exp v0.0.0-20250215185904-eff6e970281f // indirect
	golang.org/x/net v0.35.0 // indirect
	golang.org/x/oauth2 v0.26.0 // indirect
	golang.org/x/sync v0.11.0 // indirect
	golang.org/x/sys v0.30.0 // indirect
	golang.org/x/term v0.29.0 // indirect
	golang.org/x/text v0.22.0 // indirect
	golang.org/x/time v0.10.0 // indirect
	google.golang.org/genproto/googleapis/api v0.0.0-20250212204824-5a70512c5d8b // indirect
	google.golang.org/genproto/googleapis/rpc v0.0.0-20250212204824-5a70512c5d8b // indirect
	google.golang.org/grpc v1.70.0 // indirect
	google.golang.org/protobuf v1.36.5 // indirect
	gopkg.in/ini.v1 v1.67.0 // indirect
	gopkg.in/yaml.v3 v3.0.1 // indirect
)

replace github.com/dunglas/mercure => /repo

replace github.com/dunglas/mercure/caddy => /repo/caddy

replace verifharness => /verif/harness
