#!/bin/bash
# Unchanged-tree sweep: run harness families under many seeds, in parallel (which also loads the machine
# and so varies goroutine scheduling), and list every run that reports a disagreement or a violation.
#   tools/sweep.sh <binary: vh|vhs|vhr> <first-seed> <last-seed> <family>...
# Uses a private copy of the binary under a scratch directory that is removed at the end; reports are kept
# only for runs that found something (under /verif/replays/sweep).
set -u
cd /verif
bin=$1; lo=$2; hi=$3; shift 3
scratch=$(mktemp -d /tmp/sweep.XXXXXX)
cp .build/$bin $scratch/vh
mkdir -p $scratch/out replays/sweep
export VERIF_FAMILIES="$*" SCRATCH=$scratch
seq $lo $hi | xargs -P ${SWEEP_JOBS:-16} -I{} sh -c '
  for f in $VERIF_FAMILIES; do
    line=$(VERIF_SEED={} VERIF_TIER=${VERIF_TIER:-quick} timeout 1800 $SCRATCH/vh $f $SCRATCH/out/$f-{}.json 2>/dev/null | tail -1)
    echo "seed={} $line"
  done > $SCRATCH/out/log-{}.txt'
cat $scratch/out/log-*.txt > $scratch/all.txt
total=$(wc -l < $scratch/all.txt)
bad=$(grep -vc "disagreements=0 violations=0" $scratch/all.txt)
grep -v "disagreements=0 violations=0" $scratch/all.txt | while read -r s rest; do
  seed=${s#seed=}; fam=$(echo "$rest" | sed -n 's/^family=\([a-z0-9]*\).*/\1/p')
  echo "$s $rest"
  [ -n "$fam" ] && cp $scratch/out/$fam-$seed.json replays/sweep/$fam-$seed.json
done
echo "sweep: $total runs, $bad with findings"
rm -rf $scratch
[ "$bad" = 0 ]
